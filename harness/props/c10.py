"""C10 -- compiled scalar programs evaluate to the ZX scalars they were compiled from.

Tie A: translator `matmul_gf2` regenerates the order of `% 2` and the saturating float32->uint8 cast in
       compile/evaluate.py::_matmul_gf2 (theorem C10_gf2 holds only for "mod first"); `exact_scalar`
       regenerates the multiplication and the phase tables.
Tie B: the hand model of compile_scalar_graphs / evaluate (Model/Compile.v, Model/Evaluate.v) is run inside Coq
       (vm_compute) on the same scalar-graph lists as the implementation:
         * every array of the Python `CompiledScalarGraphs` equals the model's table -- integer-exact;
         * the exact (coeffs, power) the implementation hands to `to_complex` (captured by tracing the body of `evaluate`
           inside our own jax.jit with `to_complex` wrapped from outside) equals the model's, as exact dyadic values;
Search: independently of the model, `evaluate(compile(gs, ps), rows)` (the real, jitted code) is compared with
       the sum of pyzx's `evaluate_scalar` formula computed in exact arithmetic (python ints in Z[w][1/2]; floats
       only for approximate factors).  Any difference beyond float32 rounding is a violation, the input is the
       replay.  The exact reference is itself cross-checked against pyzx's own (complex128) `evaluate_scalar`.
Inputs: scalar-graph lists harvested from the real pipeline on generated circuits (T gates, rotations, noise)
       and synthetic pyzx Scalars covering each term type, empty lists of terms, zero graphs, unequal term
       counts (padding), terms with 255/256/257/300 parameters set, long products.
"""
from __future__ import annotations

import cmath
import json
import math
from fractions import Fraction

import numpy as np

from harness import coqrun as cq
from harness.common import COQBUILD, Ctx, report_broken_without_input, standard_model_phase

TRANSLATORS = ["exact_scalar", "matmul_gf2"]
COQ_FILES = ["Base/Wrap32.v", "Base/D8.v", "gen/Gen_exact_scalar.v", "gen/Gen_matmul_gf2.v", "Model/ExactScalar.v",
             "Proofs/ExactScalarProofs.v", "Model/Compile.v", "Model/Evaluate.v", "Proofs/CompileProofs.v", "Props/C10.v"]
IMPORTS = ("From Coq Require Import ZArith List Bool. Import ListNotations.\n"
           "Require Import TV.Base.Wrap32 TV.Base.D8 TV.gen.Gen_exact_scalar TV.gen.Gen_matmul_gf2 TV.Model.ExactScalar "
           "TV.Model.Compile TV.Model.Evaluate.\nOpen Scope Z_scope.\n")

MANIFEST = dict(
    text="For every list of scalar ZX diagrams (pyzx Scalar fields: phase nodes, half-pi, pi-pair and phase-pair terms, phase, power of "
         "sqrt2, dyadic and floating factors, zero flag), every duplicate-free parameter list covering their variables and every 0/1 "
         "assignment, the value returned by the model of compile_scalar_graphs + evaluate (uint8 arithmetic, padding/masking, int32 wrap "
         "included) equals the sum of pyzx's evaluate_scalar formula over the diagrams, in every commutative ring with w^4=-1 and 1/2 "
         "(theorem C10_eval, under the explicit decidable int32 no-wrap guard inherited from C09; C10_compile_total, C10_all_zero_value). "
         "The GF(2) row sums equal the parity of mask AND bits for every width (C10_gf2); the cast-before-mod variant is refuted at 256 "
         "set bits (C10_gf2_cast_before_mod_refuted).  The model is tied to the running code on scalar-graph lists harvested from the real "
         "pipeline and on synthetic lists: compiled tables integer-exact, evaluator outputs exact, and evaluate(compile(..)) is compared "
         "with an independent exact-arithmetic restatement of pyzx's formula on every assignment tried.",
    note="Trusted: Coq kernel; the hand models Model/Compile.v, Model/Evaluate.v (tied by the correspondence, not by proof); the translators "
         "matmul_gf2 (order of `% 2` and the uint8 cast; guard for an empty graph axis) and exact_scalar; JAX semantics assumed and validated "
         "by the correspondence: float32 matmul of 0/1 vectors exact below 2^24, float32->uint8 cast saturates, uint8/int32 wrap, x[idx] "
         "clamps; pyzx's evaluate_scalar is the reference semantics (restated as `scalar_value` in Model/Compile.v and in exact python "
         "arithmetic, the latter cross-checked numerically against pyzx itself); approximate (complex64) factors are opaque ring elements "
         "in the theorem and compared within single precision; to_complex is floating point and not modelled; inputs outside the no-wrap "
         "guard (products of roughly 50 or more T-type factors) are outside the theorem and a recorded finding.",
    technique="Coq proof over hand model + regenerated flags (ast translator); vm_compute correspondence; exact-arithmetic differential search",
    design_ref="DESIGN.md 4.C10",
)

H32 = 2 ** 31

# =====================================================================================
# exact reference arithmetic: Z[w][1/2], power basis 1, w, w^2, w^3 with w^4 = -1 (independent of tsim's layout)
# =====================================================================================

class ZW:
    __slots__ = ("c", "e")

    def __init__(self, c, e=0):
        self.c = tuple(int(x) for x in c)
        self.e = int(e)

    def __mul__(self, o):
        r = [0] * 7
        for i, x in enumerate(self.c):
            if x:
                for j, y in enumerate(o.c):
                    r[i + j] += x * y
        return ZW((r[0] - r[4], r[1] - r[5], r[2] - r[6], r[3]), self.e + o.e)

    def __add__(self, o):
        m = min(self.e, o.e)
        return ZW(tuple(x * (1 << (self.e - m)) + y * (1 << (o.e - m)) for x, y in zip(self.c, o.c)), m)

    def __sub__(self, o):
        return self + ZW(tuple(-y for y in o.c), o.e)

    def is_zero(self):
        return not any(self.c)

    def same(self, o):
        d = self - o
        return d.is_zero()

    def to_complex(self):
        w = cmath.exp(1j * math.pi / 4)
        a, b, c, d = self.c
        # scale big ints safely
        m = max(1, max(abs(x) for x in self.c))
        sh = max(0, m.bit_length() - 900)
        v = (a >> sh) + (b >> sh) * w + (c >> sh) * 1j + (d >> sh) * w ** 3
        return v * (2.0 ** (self.e + sh)) if -1000 < self.e + sh < 1000 else v * float(Fraction(2) ** (self.e + sh))

    def norm1(self):
        return sum(abs(x) for x in self.c) * (2.0 ** self.e)


ONE = ZW((1, 0, 0, 0))
ZERO = ZW((0, 0, 0, 0))
SQRT2 = ZW((0, 1, 0, -1))           # w - w^3
INV_SQRT2 = ZW((0, 1, 0, -1), -1)   # sqrt2 / 2


def wpow(k: int) -> ZW:
    k %= 8
    c = [0, 0, 0, 0]
    c[k % 4] = 1 if k < 4 else -1
    return ZW(c)


def cexp_quarter(x: Fraction) -> ZW:
    """exp(i pi x) for x a multiple of 1/4"""
    y = x * 4
    assert y.denominator == 1
    return wpow(int(y))


def from_tsim_layout(c4, p=0) -> ZW:
    """tsim / pyzx DyadicNumber layout (a, b, c, d) = a + b w + c i + d conj(w), conj(w) = -w^3"""
    a, b, c, d = [int(x) for x in c4]
    return ZW((a, b, c, -d), p)


# =====================================================================================
# scalars as plain dicts (JSON-able: they are the replay), pyzx objects, Coq literals
# =====================================================================================

def scalar_to_dict(sc) -> dict:
    ff = sc.floatfactor
    hp = sc.phasevars_halfpi
    bad = set(hp.keys()) - {1, 3}
    if bad:
        raise ValueError(f"phasevars_halfpi keys {bad}")
    ap = complex(sc.approximate_floatfactor)
    return {
        "power2": int(sc.power2),
        "phase": [Fraction(sc.phase).numerator, Fraction(sc.phase).denominator],
        "pi_pair": [[sorted(map(str, p[0])), sorted(map(str, p[1]))] for p in sc.phasevars_pi_pair],
        "halfpi1": [sorted(map(str, s)) for s in hp.get(1, [])],
        "halfpi3": [sorted(map(str, s)) for s in hp.get(3, [])],
        "has_halfpi_keys": sorted(int(k) for k in hp.keys()),
        "phasepairs": [[int(pp.alpha), int(pp.beta), sorted(map(str, pp.paramsA)), sorted(map(str, pp.paramsB))] for pp in sc.phasepairs],
        "phasenodes": [[Fraction(ph).numerator, Fraction(ph).denominator, sorted(map(str, vs))]
                       for ph, vs in zip(sc.phasenodes, sc.phasenodevars)],
        "floatfactor": [int(ff.k), int(ff.a), int(ff.b), int(ff.c), int(ff.d)],
        "approx": [ap.real, ap.imag],
        "is_zero": bool(sc.is_zero),
    }


def dict_to_scalar(d: dict):
    from pyzx_param.graph.scalar import DyadicNumber, Scalar, SpiderPair
    sc = Scalar()
    sc.power2 = int(d["power2"])
    sc.phase = Fraction(d["phase"][0], d["phase"][1])
    sc.phasevars_pi_pair = [[set(a), set(b)] for a, b in d["pi_pair"]]
    sc.phasevars_halfpi = {}
    keys = d.get("has_halfpi_keys")
    if keys is None:
        keys = [k for k, name in ((1, "halfpi1"), (3, "halfpi3")) if d[name]]
    for k in keys:
        sc.phasevars_halfpi[k] = [set(s) for s in d["halfpi1" if k == 1 else "halfpi3"]]
    sc.phasepairs = [SpiderPair(a, b, set(pa), set(pb)) for a, b, pa, pb in d["phasepairs"]]
    sc.phasenodes = [Fraction(n, dd) for n, dd, _ in d["phasenodes"]]
    sc.phasenodevars = [set(vs) for _, _, vs in d["phasenodes"]]
    k, a, b, c, dd = d["floatfactor"]
    ff = DyadicNumber(0, 1, 0, 0, 0)
    ff.k, ff.a, ff.b, ff.c, ff.d = k, a, b, c, dd      # keep the fields exactly as harvested / generated
    sc.floatfactor = ff
    sc.approximate_floatfactor = complex(d["approx"][0], d["approx"][1])
    sc.is_zero = bool(d["is_zero"])
    return sc


def mk_graphs(case):
    import pyzx_param as zx
    gs = []
    for d in case["graphs"]:
        g = zx.Graph()
        g.scalar = dict_to_scalar(d)
        gs.append(g)
    return gs


def blank(**kw) -> dict:
    d = {"power2": 0, "phase": [0, 1], "pi_pair": [], "halfpi1": [], "halfpi3": [], "phasepairs": [], "phasenodes": [],
         "floatfactor": [0, 1, 0, 0, 0], "approx": [1.0, 0.0], "is_zero": False}
    d.update(kw)
    return d


def _vars(names, vid):
    return "[" + "; ".join(cq.nat(vid[v]) for v in names) + "]"


def _pside(names, vid):
    has1 = "1" in names
    return f"({'true' if has1 else 'false'}, {_vars([v for v in names if v != '1'], vid)})"


def scalar_to_coq(d: dict, vid: dict, opaque: list) -> str:
    ap = complex(d["approx"][0], d["approx"][1])
    if ap == 1.0:
        af = "AOne"
    else:
        opaque.append(ap)
        af = f"(AOpaque {len(opaque) - 1})"
    nodes = []
    for n, dd, vs in d["phasenodes"]:
        k4 = Fraction(n, dd) * 4
        assert k4.denominator == 1
        nodes.append(f"({cq.z(int(k4))}, {_vars(vs, vid)})")
    k, a, b, c, dd = d["floatfactor"]
    return ("(mkScalar " + " ".join([
        cq.z(d["power2"]), cq.z(Fraction(d["phase"][0], d["phase"][1]).numerator), f"{Fraction(d['phase'][0], d['phase'][1]).denominator}%positive",
        cq.lst([f"({_pside(p[0], vid)}, {_pside(p[1], vid)})" for p in d["pi_pair"]]),
        cq.lst([_vars(s, vid) for s in d["halfpi1"]]),
        cq.lst([_vars(s, vid) for s in d["halfpi3"]]),
        cq.lst([f"(mkSP {cq.z(x[0])} {cq.z(x[1])} {_vars(x[2], vid)} {_vars(x[3], vid)})" for x in d["phasepairs"]]),
        cq.lst(nodes),
        f"(mkDy {cq.z(k)} {cq.ztuple((a, b, c, dd))})",
        af, "true" if d["is_zero"] else "false"]) + ")")


DEFS = r"""
Fixpoint all_rows (n : nat) : list (list bool) :=
  match n with O => [[]] | S k => flat_map (fun r => [false :: r; true :: r]) (all_rows k) end.
Fixpoint show_afac (f : afac) : Z * list (Z * Z) :=
  match f with
  | AOne => (-1, [])
  | AOpaque i => (i, [])
  | ARot g pn pd => (fst (show_afac g), snd (show_afac g) ++ [(pn, Zpos pd)])
  end.
Definition show_result (r : option eval_result) :=
  match r with
  | None => (0, [], [])
  | Some (EvExact v) => (1, [v], [])
  | Some (EvApprox l) => (2, [], map (fun x => (fst (fst x), show_afac (snd (fst x)), snd x)) l)
  end.
Definition tables (c : compiled) :=
  (tbl_num_graphs c, Z.of_nat (c_n_params c), tbl_a_const_phases c, tbl_a_param_bits c, tbl_a_num_terms c,
   tbl_b_term_types c, tbl_b_param_bits c,
   tbl_c_const_bits_a c, tbl_c_param_bits_a c, tbl_c_const_bits_b c, tbl_c_param_bits_b c,
   tbl_d_const_alpha c, tbl_d_const_beta c, tbl_d_param_bits_a c, tbl_d_param_bits_b c, tbl_d_num_terms c,
   tbl_phase_indices c, c_has_approx c, tbl_power2 c, tbl_floatfactor c, tbl_approx_is_one c,
   map (fun g => show_afac (cg_approx g)) (c_graphs c)).
Definition show_case (gs : list scalar) (ps : list var) (rows : list (list bool)) :=
  match compile_scalar_graphs gs ps with
  | None => None
  | Some c => Some (tables c, map (fun r => (show_result (evaluate r c), eval_guard r c)) rows)
  end.
"""

TABLE_FIELDS = ["num_graphs", "n_params", "a_const_phases", "a_param_bits", "a_num_terms", "b_term_types", "b_param_bits",
                "c_const_bits_a", "c_param_bits_a", "c_const_bits_b", "c_param_bits_b", "d_const_alpha", "d_const_beta",
                "d_param_bits_a", "d_param_bits_b", "d_num_terms", "phase_indices", "has_approximate_floatfactors", "power2",
                "floatfactor", "approx_is_one", "approx_symbolic"]


def case_rows(case) -> np.ndarray:
    n = len(case["params"])
    if case["rows"] == "all":
        return np.array([[(i >> j) & 1 for j in range(n)] for i in range(2 ** n)], dtype=np.uint8).reshape(2 ** n, n)
    return np.array(case["rows"], dtype=np.uint8).reshape(len(case["rows"]), n)


def model_term(case, vid, opaque) -> str:
    ps = "[" + "; ".join(cq.nat(vid[p]) for p in case["params"]) + "]"
    gs = cq.lst([scalar_to_coq(d, vid, opaque) for d in case["graphs"]])
    if case["rows"] == "all":
        rows = f"(all_rows {cq.nat(len(case['params']))})"
    else:
        rows = cq.lst([cq.blist(r) for r in case["rows"]])
    return f"show_case {gs} {ps} {rows}"


def var_ids(case, rng) -> dict:
    """an injective, deliberately non-monotone map name -> nat (the model must not depend on ids being positions)"""
    names = list(case["params"])
    ids = list(range(3, 3 + len(names)))
    rng.shuffle(ids)
    return dict(zip(names, ids))


# =====================================================================================
# reference: pyzx's evaluate_scalar formula in exact arithmetic
# =====================================================================================

def ref_value(d: dict, vals: dict):
    """returns (exact part as ZW, approximate complex factor or None).  Mirrors Scalar.evaluate_scalar line by line."""
    vals = dict(vals)
    vals["1"] = 1
    num = ONE
    for n, dd, vs in d["phasenodes"]:
        num = num * (ONE + cexp_quarter(Fraction(n, dd) + sum(vals[v] for v in vs)))
    for alpha, beta, pa, pb in d["phasepairs"]:
        psi = Fraction(alpha, 4) + sum(vals[v] for v in pa)
        phi = Fraction(beta, 4) + sum(vals[v] for v in pb)
        num = num * (ONE + cexp_quarter(psi) + cexp_quarter(phi) - cexp_quarter(psi + phi))
    for c, name in ((1, "halfpi1"), (3, "halfpi3")):
        for vs in d[name]:
            num = num * cexp_quarter(Fraction((sum(vals[v] for v in vs) % 2) * c, 2))
    for pa, pb in d["pi_pair"]:
        psi = sum(vals[v] for v in pa)
        phi = sum(vals[v] for v in pb)
        num = num * cexp_quarter(Fraction(psi * phi))
    if d["is_zero"]:
        return ZERO, None
    approx = complex(d["approx"][0], d["approx"][1])
    ph = Fraction(d["phase"][0], d["phase"][1])
    if (ph * 4).denominator == 1:
        num = num * cexp_quarter(ph)
    else:
        approx = approx * cmath.exp(1j * math.pi * float(ph))
    p2 = d["power2"]
    s = SQRT2 if p2 >= 0 else INV_SQRT2
    for _ in range(abs(p2)):
        num = num * s
    k, a, b, c, dd = d["floatfactor"]
    num = num * from_tsim_layout((a, b, c, dd), -k)
    return num, (None if approx == 1.0 else approx)


def pyzx_value(sc, vals: dict) -> complex:
    return complex(sc.evaluate_scalar({k: Fraction(v) for k, v in vals.items()}))


# =====================================================================================
# inputs
# =====================================================================================

def gen_circuit(rng, nq, depth, rot, max_magic=8):
    """random circuit text; at most `max_magic` non-Clifford gates (the stabilizer decomposition is exponential in them)"""
    L = ["R " + " ".join(map(str, range(nq)))]
    magic = 0
    for _ in range(depth):
        k = rng.random()
        q = rng.randrange(nq)
        if (0.24 <= k < 0.46 or 0.85 <= k < 0.94) and magic >= max_magic:
            k = 0.1
        if 0.24 <= k < 0.46 or (0.85 <= k < 0.94 and rot):
            magic += 1
        if k < 0.17:
            L.append(f"H {q}")
        elif k < 0.24:
            L.append(rng.choice(["S", "S_DAG", "SQRT_X"]) + f" {q}")
        elif k < 0.46:
            L.append(rng.choice(["T", "T_DAG"]) + f" {q}")
        elif k < 0.70 and nq > 1:
            a, b = rng.sample(range(nq), 2)
            L.append(rng.choice(["CX", "CZ"]) + f" {a} {b}")
        elif k < 0.78:
            L.append(rng.choice(["X_ERROR", "Z_ERROR", "Y_ERROR"]) + f"({rng.choice([0.1, 0.02, 0.25])}) {q}")
        elif k < 0.82:
            L.append(f"DEPOLARIZE1(0.05) {q}")
        elif k < 0.85 and nq > 1:
            a, b = rng.sample(range(nq), 2)
            L.append(f"DEPOLARIZE2(0.05) {a} {b}")
        elif k < 0.92 and rot:
            L.append(rng.choice(["R_Z", "R_X", "R_Y"]) + f"({rng.choice([0.3, 0.125, 0.7, 1.1, 0.25])}) {q}")
        elif k < 0.94 and rot:
            L.append(f"U3({rng.choice([0.3, 0.5])},{rng.choice([0.2, 0.25])},0.9) {q}")
        elif k < 0.97:
            L.append(f"M {q}")
        else:
            L.append(f"H {q}")
    L.append("M " + " ".join(map(str, range(nq))))
    return "\n".join(L)


def harvest(ctx: Ctx, n_circuits: int, max_lists: int):
    """run the real pipeline on generated circuits, recording the arguments of compile_scalar_graphs"""
    import tsim
    import tsim.compile.pipeline as PL
    rec = []
    orig = PL.compile_scalar_graphs

    def spy(g_list, params):
        try:
            rec.append(([scalar_to_dict(g.scalar) for g in g_list], [str(p) for p in params]))
        except Exception as e:  # noqa
            rec.append(("error", repr(e)))
        return orig(g_list, params)

    PL.compile_scalar_graphs = spy
    cases, texts = [], []
    seen = set()
    try:
        for i in range(n_circuits):
            nq = ctx.rng.randrange(2, 7)
            txt = gen_circuit(ctx.rng, nq, ctx.rng.randrange(10, 46), rot=(i % 3 == 0), max_magic=7 if ctx.quick else 10)
            n0 = len(rec)
            try:
                tsim.Circuit(txt).compile_sampler(seed=1)
            except Exception as e:  # noqa -- rejection of a generated circuit is not C10's business
                ctx.count(None, nontrivial=False, bucket="harvest-circuit-rejected")
                continue
            texts.append(txt)
            for r in rec[n0:]:
                if r[0] == "error":
                    ctx.log("harvest: scalar outside the modelled fields:", r[1])
                    ctx.cov.setdefault("harvest_unmodelled", []).append(r[1])
                    continue
                graphs, params = r
                if len(graphs) > (300 if ctx.quick else 2500):
                    ctx.cov["harvested_lists_dropped_too_large"] = ctx.cov.get("harvested_lists_dropped_too_large", 0) + 1
                    continue
                key = json.dumps([graphs, params], sort_keys=True)
                if key in seen:
                    continue
                seen.add(key)
                cases.append({"name": f"harvest-{i}-{len(cases)}", "origin": "harvest", "circuit": txt,
                              "params": params, "graphs": graphs})
    finally:
        PL.compile_scalar_graphs = orig
    # prefer the rich lists: sort by (number of graphs, number of terms), keep a spread
    def richness(c):
        return (len(c["graphs"]) > 1, sum(len(g["phasenodes"]) + len(g["phasepairs"]) + len(g["halfpi1"]) + len(g["halfpi3"]) + len(g["pi_pair"])
                                          for g in c["graphs"]), len(c["params"]))
    cases.sort(key=richness, reverse=True)
    keep = cases[: max_lists * 2 // 3] + cases[len(cases) - max_lists // 3:] if len(cases) > max_lists else cases
    ctx.cov["harvest"] = {"circuits": len(texts), "lists_recorded": len(rec), "distinct_lists": len(cases), "lists_used": len(keep)}
    return keep


def synthetic(ctx: Ctx):
    rng = ctx.rng
    cases = []

    def add(name, params, graphs, rows="all"):
        cases.append({"name": name, "origin": "synthetic", "params": list(params), "graphs": graphs, "rows": rows})

    P3 = ["a", "b", "c"]
    # --- each term type alone, every constant
    add("A-const-only", ["a"], [blank(phasenodes=[[k, 4, []]]) for k in range(8)])
    add("A-each-k", P3, [blank(phasenodes=[[k, 4, ["a", "c"]]]) for k in range(8)])
    add("A-two-terms", P3, [blank(phasenodes=[[1, 4, ["a"]], [3, 2, ["b", "c"]], [1, 1, ["a", "b", "c"]]])])
    add("B-halfpi", P3, [blank(halfpi1=[["a"], ["a", "b"]], has_halfpi_keys=[1]), blank(halfpi3=[["c"], ["b", "c"]], has_halfpi_keys=[3]),
                         blank(halfpi1=[["a"], ["b"]], halfpi3=[["a"], ["b", "c"]], has_halfpi_keys=[1, 3])])
    # same bit string several times: accumulation mod 4 and dropping of zero terms (1+3, 1+1+1+1, 3+3 = 2 mod 4)
    add("B-accumulate", P3, [blank(halfpi1=[["a", "b"]], halfpi3=[["a", "b"]], has_halfpi_keys=[1, 3]),
                             blank(halfpi1=[["a"], ["a"], ["a"], ["a"], ["c"]], has_halfpi_keys=[1]),
                             blank(halfpi3=[["b"], ["b"], ["c"]], halfpi1=[["c"], ["a"]], has_halfpi_keys=[1, 3]),
                             blank(halfpi1=[["a"], ["a"]], has_halfpi_keys=[1])])
    add("C-pipair", P3, [blank(pi_pair=[[["a"], ["b"]]]), blank(pi_pair=[[["a", "1"], ["b", "c"]]]), blank(pi_pair=[[["1"], ["c"]], [["a", "b"], ["1", "c"]]]),
                         blank(pi_pair=[[["1", "a"], ["1", "a"]], [["b"], ["b"]], [["1"], ["1"]]])])
    add("D-pairs", P3, [blank(phasepairs=[[al, be, ["a"], ["b", "c"]]]) for al in range(8) for be in (0, 1, 3, 6)])
    add("D-two", P3, [blank(phasepairs=[[1, 2, ["a"], ["b"]], [7, 7, [], ["c"]], [4, 0, ["a", "b", "c"], []]], power2=-3)])
    # --- static part
    add("static-phase", ["a"], [blank(phase=[k, 4]) for k in range(8)] + [blank(phase=[1, 2]), blank(phase=[1, 1]), blank(phase=[3, 2])])
    add("static-power2", ["a"], [blank(power2=p) for p in (-7, -4, -3, -1, 0, 1, 2, 5, 8)])
    add("static-dyadic", ["a"], [blank(floatfactor=[k, a, b, c, d], power2=p) for (k, a, b, c, d), p in
                                  [((0, 1, 0, 0, 0), 1), ((2, 1, 1, 0, 0), 0), ((3, 1, -1, 2, 5), -3), ((-2, 3, 0, 0, 1), 3), ((5, 0, 1, 0, 1), 1),
                                   ((1, 1, 0, 1, 0), 1), ((0, 2, 0, 0, 0), 0), ((-1, 4, 4, 0, 8), 5), ((7, -3, 7, 1, 1), -9)]])
    # terms that cancel almost completely (the sum over graphs is an exact ring operation: rounding happens once, on the result):
    # (2^24+1) - 2^24 = 1 with integer and with w components, equal and different powers of two, and through a parameter-dependent sign
    BIG = 2 ** 24
    add("near-cancel-integers", ["a"], [blank(floatfactor=[0, BIG + 1, 0, 0, 0]), blank(floatfactor=[0, BIG, 0, 0, 0], phase=[1, 1])])
    add("near-cancel-powers", ["a"], [blank(floatfactor=[0, BIG + 1, 0, 0, 0], power2=-2), blank(floatfactor=[0, 2 * BIG, 0, 0, 0], power2=-4, phase=[1, 1])])
    add("near-cancel-omega", ["a"], [blank(floatfactor=[0, 3, BIG + 1, 0, -5]), blank(floatfactor=[0, 0, BIG, 0, 0], phase=[1, 1]),
                                     blank(floatfactor=[0, BIG + 3, 0, 0, 0], phase=[1, 4]), blank(floatfactor=[0, BIG, 0, 0, 0], phase=[5, 4])])
    add("near-cancel-by-parameter", ["a", "b"], [blank(floatfactor=[0, BIG + 1, 0, 0, 0], pi_pair=[[["a"], ["1"]]]),
                                                 blank(floatfactor=[0, BIG, 0, 0, 0], pi_pair=[[["1"], ["b"]]])])
    # more than 64 graphs in one list (a component with a dozen T gates decomposes into hundreds of terms)
    for ng in (65, 100, 129):
        add(f"many-graphs-{ng}", ["a", "b"], [blank(phasenodes=[[(3 * k) % 8, 4, ["a"] if k % 2 else ["b"]]], phase=[k % 8, 4], power2=-(k % 3)) for k in range(ng)])
    # rows of one batch at very different magnitudes: 36 and 40 legless spiders 1+e^{i pi a} give 2^36 / 2^40 for a=0 and exactly 0 for a=1
    for nn in (36, 40):
        add(f"A-product-{nn}-zero-row", ["a", "b"], [blank(phasenodes=[[0, 1, ["a"]]] * nn + [[1, 4, ["b"]]])], rows="all")
        cases[-1]["batch"] = 4          # all four rows in ONE call of evaluate
    # a vanishing term next to a term of size 2^40 (the zero carries the power 0: it must not drag the alignment of the sum); rows chosen
    # so that at most one of the two graphs is non-zero (2 + 2^40 itself is not representable in int32 coefficients)
    add("zero-summand-low-power", ["a", "b"], [blank(phasenodes=[[0, 1, ["a"]]]), blank(phasenodes=[[0, 1, ["b"]]] * 40)], rows=[[1, 0], [1, 1], [0, 1]])
    cases[-1]["batch"] = 3
    add("static-approx", ["a", "b"], [blank(approx=[0.3, -1.7], phasenodes=[[1, 4, ["a"]]]), blank(phase=[1, 3], halfpi1=[["b"]], has_halfpi_keys=[1]),
                                      blank(phase=[5, 8], approx=[-0.2, 0.4], power2=3), blank(phase=[1, 4], power2=-2)])
    add("approx-with-exact-graphs", ["a", "b"], [blank(phasenodes=[[3, 4, ["a", "b"]]]), blank(approx=[2.5, 0.0], pi_pair=[[["a"], ["b"]]])])
    add("phase-not-multiple-of-quarter", ["a"], [blank(phase=[1, 3]), blank(phase=[7, 5], phasenodes=[[1, 4, ["a"]]]), blank(phase=[1, 8])])
    # --- structure: no terms, no graphs left, zero graphs, padding from unequal term counts
    add("no-terms", ["a", "b"], [blank(), blank(power2=2)])
    add("all-zero", ["a"], [blank(is_zero=True), blank(is_zero=True, phasenodes=[[1, 1, []]])])        # nothing left after compilation: the sum is 0
    add("no-params", [], [blank(phasenodes=[[1, 4, []]]), blank(phase=[1, 2])])
    add("zero-graph-dropped", P3, [blank(is_zero=True, phasenodes=[[1, 1, []], [1, 4, ["a"]]]), blank(phasenodes=[[1, 4, ["a"]]]),
                                   blank(is_zero=True), blank(phasepairs=[[1, 1, ["b"], ["c"]]])])
    add("padding-unequal", P3, [
        blank(phasenodes=[[1, 4, ["a"]], [3, 4, ["b"]], [7, 4, ["a", "c"]], [2, 4, ["c"]]]),
        blank(phasenodes=[[5, 4, ["a", "b"]]], phasepairs=[[1, 3, ["a"], ["c"]], [2, 5, ["b"], ["a", "c"]], [0, 7, ["c"], []]]),
        blank(halfpi1=[["a"], ["b"], ["c"], ["a", "b"]], has_halfpi_keys=[1], pi_pair=[[["a"], ["b"]], [["1", "c"], ["a"]], [["b"], ["c"]]]),
        blank(),
        blank(phasepairs=[[6, 6, ["a", "b", "c"], ["a"]]], halfpi3=[["c"]], has_halfpi_keys=[3], pi_pair=[[["a"], ["c"]]]),
    ])
    add("padding-first-graph-empty", P3, [blank(), blank(phasenodes=[[1, 4, ["a"]], [1, 4, ["b"]]], phasepairs=[[1, 1, ["a"], ["b"]]])])
    # --- random mixtures
    for r in range(3 if ctx.quick else 12):
        n = rng.randrange(1, 7 if ctx.quick else 11)
        ps = [f"p{i}" for i in range(n)]
        rng.shuffle(ps)

        def sub(maxk=None):
            k = rng.randrange(0, (maxk or n) + 1)
            return rng.sample(ps, min(k, n))

        graphs = []
        for _g in range(rng.randrange(1, 6)):
            hp1 = [s for s in (sub(3) for _ in range(rng.randrange(0, 4))) if s]
            hp3 = [s for s in (sub(3) for _ in range(rng.randrange(0, 4))) if s]
            if hp1 and rng.random() < 0.5:
                hp3.append(list(hp1[0]))
            keys = ([1] if hp1 or rng.random() < 0.3 else []) + ([3] if hp3 or rng.random() < 0.3 else [])
            pip = []
            for _ in range(rng.randrange(0, 4)):
                a, b = sub(3), sub(3)
                if rng.random() < 0.3:
                    a = a + ["1"]
                if rng.random() < 0.3:
                    b = b + ["1"]
                if a and b:
                    pip.append([a, b])
            graphs.append(blank(
                power2=rng.randrange(-8, 9), phase=[rng.randrange(0, 8), 4] if rng.random() < 0.8 else [rng.randrange(0, 2), 1],
                phasenodes=[[rng.randrange(0, 8), 4, sub()] for _ in range(rng.randrange(0, 5))],
                phasepairs=[[rng.randrange(0, 8), rng.randrange(0, 8), sub(3), sub(3)] for _ in range(rng.randrange(0, 4))],
                halfpi1=hp1, halfpi3=hp3, has_halfpi_keys=keys, pi_pair=pip,
                floatfactor=[rng.randrange(-3, 6), 2 * rng.randrange(-3, 4) + 1, rng.randrange(-4, 5), rng.randrange(-4, 5), rng.randrange(-4, 5)],
                is_zero=rng.random() < 0.1))
            # phasenodes must not make the scalar a constant zero without the flag: evaluate_scalar handles it anyway
        if r % 4 == 3:
            graphs[-1]["approx"] = [rng.uniform(-2, 2), rng.uniform(-2, 2)]
        add(f"random-{r}", ps, graphs)
    # --- terms depending on hundreds of parameters: 255 / 256 / 257 / 300 set
    W = 300
    wide = [f"q{i}" for i in range(W)]
    rows = []
    for k in (0, 1, 2, 254, 255, 256, 257, 258, 299, 300):
        rows.append([1] * k + [0] * (W - k))
    for k in (256, 257):
        r = [0] * W
        for i in rng.sample(range(W), k):
            r[i] = 1
        rows.append(r)
    for _ in range(2 if ctx.quick else 10):
        rows.append([rng.randrange(2) for _ in range(W)])
    add("wide-A", wide, [blank(phasenodes=[[1, 4, list(wide)]]), blank(phasenodes=[[3, 4, wide[:256]], [1, 2, wide[100:]]])], rows)
    add("wide-B", wide, [blank(halfpi1=[list(wide)], halfpi3=[wide[:257]], has_halfpi_keys=[1, 3])], rows)
    add("wide-C", wide, [blank(pi_pair=[[list(wide), ["1"]], [wide[:256], wide[1:257] + ["1"]]])], rows)
    add("wide-D", wide, [blank(phasepairs=[[1, 2, list(wide), wide[:256]]])], rows)
    # --- long products
    add("A-product-30", ["a"], [blank(phasenodes=[[1, 4, []]] * 30)])
    add("A-product-mixed-44", ["a", "b"], [blank(phasenodes=[[1, 4, ["a"]], [3, 4, ["b"]], [2, 4, []], [0, 4, ["a"]]] * 11)])
    add("A-product-60", ["a"], [blank(phasenodes=[[1, 4, []]] * 60)])                 # coefficients exceed int32: known finding
    add("D-product-20", ["a", "b"], [blank(phasepairs=[[1, 2, ["a"], ["b"]], [3, 3, ["b"], []]] * 10, power2=-20)])
    return cases


def choose_rows(ctx: Ctx, case):
    """all 2^n assignments when that is affordable (n <= 8 quick / 12 thorough and rows x graphs within the budget of the
    vm_compute model run), otherwise 0..0, 1..1 and random assignments"""
    if "rows" in case:
        return
    n = len(case["params"])
    kept = [g for g in case["graphs"] if not g["is_zero"]]
    width = 6 + sum(max((len(g[f]) + (len(g["halfpi3"]) if f == "halfpi1" else 0) for g in kept), default=0)
                    for f in ("phasenodes", "halfpi1", "pi_pair", "phasepairs"))
    ng = max(1, len(kept)) * width                  # padded term evaluations per row in the Coq model
    lim = 8 if ctx.quick else 12
    budget = 25000 if ctx.quick else 120000        # ~0.25 ms each: int32 wrap-around via Z.modulo dominates the vm_compute run
    if n <= lim and (2 ** n) * ng <= budget:
        case["rows"] = "all"
    else:
        k = max(4, min(48 if ctx.quick else 400, budget // ng, 2 ** n))
        rows = {tuple([0] * n), tuple([1] * n)}
        while len(rows) < min(k, 2 ** n):
            rows.add(tuple(ctx.rng.randrange(2) for _ in range(n)))
        case["rows"] = [list(r) for r in sorted(rows)]


# =====================================================================================
# running the implementation
# =====================================================================================

def impl_tables(comp) -> dict:
    t = {}
    for f in TABLE_FIELDS:
        if f == "approx_is_one":
            t[f] = [bool(complex(x) == 1.0) for x in np.asarray(comp.approximate_floatfactors).tolist()]
            continue
        if f == "approx_symbolic":
            t[f] = [complex(x) for x in np.asarray(comp.approximate_floatfactors).tolist()]
            continue
        v = getattr(comp, f)
        if isinstance(v, (bool, int)):
            t[f] = v
        else:
            t[f] = np.asarray(v).astype(np.int64).tolist()
    return t


def norm_tbl(x):
    if isinstance(x, (tuple, list)):
        return [norm_tbl(y) for y in x]
    return int(x)


def tables_equal(model, impl) -> bool:
    return norm_tbl(model) == norm_tbl(impl)


def run_impl(case, rows, batch, EV, comp):
    """the real, jitted evaluate, in batches of `batch` rows (last batch padded by repeating row 0 -> same shapes)"""
    import jax.numpy as jnp
    n = len(rows)
    out = np.zeros((n,), dtype=np.complex128)
    i = 0
    while i < n:
        chunk = rows[i:i + batch]
        m = len(chunk)
        if m < batch:
            chunk = np.concatenate([chunk, np.repeat(rows[:1], batch - m, axis=0)], axis=0)
        v = np.asarray(EV.evaluate(comp, jnp.asarray(chunk, dtype=jnp.uint8)))
        out[i:i + m] = v[:m]
        i += batch
    return out


def exact_capture(EV, ESA, comp, rows, batch):
    """the exact (coeffs, power) that `evaluate` hands to `to_complex`: the un-jitted body of `evaluate` is traced inside our own
    jax.jit with ExactScalarArray.to_complex wrapped (from outside, no source change); the captured tracers are returned as outputs"""
    import jax
    import jax.numpy as jnp
    cap = []
    orig = ESA.to_complex
    body = getattr(EV.evaluate, "__wrapped__", None)
    if body is None:
        return None

    def spy(self):
        cap.append((self.coeffs, self.power))
        return orig(self)

    def fn(c, r):
        del cap[:]
        body(c, r)
        return cap[-1]

    ESA.to_complex = spy
    try:
        jf = jax.jit(fn)
        n = len(rows)
        cos, pos = [], []
        i = 0
        while i < n:
            chunk = rows[i:i + batch]
            m = len(chunk)
            if m < batch:
                chunk = np.concatenate([chunk, np.repeat(rows[:1], batch - m, axis=0)], axis=0)
            co, po = jf(comp, jnp.asarray(chunk, dtype=jnp.uint8))
            cos.append(np.asarray(co).astype(np.int64)[:m])
            pos.append(np.asarray(po).astype(np.int64)[:m])
            i += batch
        return np.concatenate(cos, axis=0), np.concatenate(pos, axis=0)
    finally:
        ESA.to_complex = orig


# =====================================================================================
# one case
# =====================================================================================

def check_case(ctx: Ctx, case, model_out, opaque, mods) -> None:
    EV, ESA, CC = mods
    name = case["name"]
    params = case["params"]
    rows = case_rows(case)
    n = len(params)
    graphs_py = mk_graphs(case)
    replay = {k: case[k] for k in ("name", "origin", "params", "graphs", "rows") if k in case}
    if "circuit" in case:
        replay["circuit"] = case["circuit"]

    kinds = "".join(ch for ch, f in (("A", "phasenodes"), ("B", "halfpi1"), ("B", "halfpi3"), ("C", "pi_pair"), ("D", "phasepairs"))
                    if any(g[f] for g in case["graphs"]))
    bucket = f"{case['origin']}:{''.join(sorted(set(kinds))) or 'static'}"

    # ---- implementation: compile
    try:
        comp = CC.compile_scalar_graphs(graphs_py, list(params))
    except Exception as e:  # noqa
        ctx.violation(f"compile-raises:{name}", f"compile_scalar_graphs raised {type(e).__name__}: {e}", replay)
        return
    kept = [d for d in case["graphs"] if not d["is_zero"]]

    # ---- reference values (exact) per row
    ref_exact, ref_approx, ref_scale = [], [], []
    any_approx = False
    for r in rows:
        vals = {p: int(b) for p, b in zip(params, r)}
        tot = ZERO
        tot_f = 0j
        scale = 0.0
        for d in case["graphs"]:
            ex, ap = ref_value(d, vals)
            if ap is None:
                tot = tot + ex
                tot_f += 0
            else:
                any_approx = True
                tot_f += ex.to_complex() * ap
            scale += ex.norm1() * (abs(ap) if ap is not None else 1.0)
        ref_exact.append(tot)
        ref_approx.append(tot_f)
        ref_scale.append(scale)
    # cross-check the exact reference against pyzx's own evaluate_scalar (complex128) on a few rows
    originals = [dict_to_scalar(d) for d in case["graphs"]]
    for ri in sorted(set([0, len(rows) - 1, len(rows) // 2, len(rows) // 3])):
        vals = {p: int(b) for p, b in zip(params, rows[ri])}
        z = sum(pyzx_value(sc, dict(vals)) for sc in originals)
        mine = ref_exact[ri].to_complex() + ref_approx[ri]
        if abs(z - mine) > 1e-9 * max(1.0, ref_scale[ri]):
            ctx.broken.append(f"reference: exact re-statement of evaluate_scalar differs from pyzx on {name} row {ri}: {mine} vs {z}")
            break

    # ---- model
    m_rows = None
    if model_out is not None:
        flat = model_out[1]
        tables_m = dict(zip(TABLE_FIELDS, flat[:len(TABLE_FIELDS)]))
        m_rows = flat[len(TABLE_FIELDS)]
        tables_i = impl_tables(comp)
        for f in TABLE_FIELDS:
            if f == "approx_symbolic":
                # the complex64 factors: opaque float times the folded phases, within single precision
                for gi, ((aid, rots), z) in enumerate(zip(tables_m[f], tables_i[f])):
                    want_f = 1.0 if aid == -1 else opaque[aid]
                    for pn, pd in rots:
                        want_f = want_f * cmath.exp(1j * math.pi * pn / pd)
                    if abs(z - want_f) > 2e-6 * max(1.0, abs(want_f)):
                        ctx.broken.append(f"correspondence:approximate_floatfactors[{gi}] = {z}, model says {want_f} on {name}")
                        break
                continue
            if not tables_equal(tables_m[f], tables_i[f]):
                ctx.broken.append(f"correspondence:table {f} differs on {name}: model {str(tables_m[f])[:200]} impl {str(tables_i[f])[:200]}")
                break

    # ---- implementation: evaluate (jitted), batch size from the PRNG
    batch = case.get("batch") or ctx.rng.choice([1, 2, 3, 5, 8, 13, 16, 31, 32, 64])
    if len(rows) > 1024:
        batch = max(batch, 32)
    replay["batch"] = batch
    try:
        got = run_impl(case, rows, batch, EV, comp)
    except Exception as e:  # noqa
        if not kept:
            # every graph is the zero scalar: the sum is 0, but evaluate raises on the empty graph axis
            ctx.violation(f"all-zero-raises:{name}", f"evaluate raises {type(e).__name__} when every graph of the list is zero (the sum is 0)", replay)
        else:
            ctx.violation(f"evaluate-raises:{name}", f"evaluate raised {type(e).__name__}: {str(e)[:200]}", replay)
        return
    ctx.cov.setdefault("batch_sizes", set()).add(batch)
    # compiling is a function of the diagrams: compiling the SAME graph objects a second time (as any caller holding the list may do)
    # gives a program with the same values, and the diagrams' own scalars still evaluate to what they did before
    if kept and len(rows) and not case.get("no_recompile"):
        try:
            comp2 = CC.compile_scalar_graphs(graphs_py, list(params))
            sub = rows[: min(len(rows), 8)]
            again = run_impl(case, sub, len(sub), EV, comp2)
            ctx.count(("recompile", name), nontrivial=bool(kinds), bucket="compile-twice")
            for ri in range(len(sub)):
                if not (abs(again[ri] - got[ri]) <= 1e-5 * max(1.0, abs(got[ri]))):
                    rp = dict(replay)
                    rp["rows"] = [sub[ri].tolist()]
                    rp["recompile"] = True
                    ctx.violation(f"compile-twice:{name}", f"compiling the same scalar graphs a second time gives {again[ri]} where the first compilation gave {got[ri]} "
                                  f"on {name} (compile_scalar_graphs changed its input)", rp)
                    break
        except Exception as e:  # noqa
            ctx.violation(f"compile-twice-raises:{name}", f"compiling the same scalar graphs a second time raised {type(e).__name__}: {str(e)[:200]}", replay)

    # ---- compare
    worst = None
    for ri in range(len(rows)):
        want = ref_exact[ri].to_complex() + ref_approx[ri]
        guard = True
        tol = None
        if m_rows is not None:
            kind, ex, ap, guard = m_rows[ri]
            if kind == 1:
                c4, p = tuple(ex[0][:4]), ex[0][4]
                tol = 3e-6 * max(1, sum(abs(int(x)) for x in c4)) * 2.0 ** p
                mval = from_tsim_layout(c4, p)
                if guard and not any_approx and not mval.same(ref_exact[ri]):
                    # theorem C10_eval says this cannot happen for the model; if it does the model or the statement is wrong
                    ctx.broken.append(f"model-vs-reference: model value differs from the exact reference inside the guard on {name} row {ri}")
            elif kind == 2:
                tol = 0.0
                for item in ap:
                    c4, p, (aid, rots), p2 = tuple(item[:4]), item[4], item[5], item[6]
                    a = 1.0 if aid == -1 else abs(opaque[aid])
                    tol += 1e-5 * max(1, sum(abs(int(x)) for x in c4)) * 2.0 ** (p + p2) * a
        if tol is None:
            # no model output: single-precision rounding of the exactly summed result (norm1 of the exact sum, not of the terms)
            tol = 3e-6 * max(ref_exact[ri].norm1(), 1e-30) if not any_approx else 1e-5 * max(ref_scale[ri], 1e-30)
        tol = max(tol, 1e-5 * abs(want), 1e-37)
        ctx.count((name, ri), nontrivial=bool(kinds), bucket=bucket)
        if m_rows is not None:
            k_ = "rows_inside_nowrap_guard" if guard else "rows_outside_nowrap_guard"
            ctx.cov[k_] = ctx.cov.get(k_, 0) + 1
        if not (abs(got[ri] - want) <= tol):
            if worst is None:
                worst = (ri, got[ri], want, tol, guard)
    if worst is not None:
        ri, g, w, tol, guard = worst
        bits = rows[ri].tolist()
        rp = dict(replay)
        rp["rows"] = [bits]
        rp["failing_row"] = bits
        nset = int(sum(bits))
        if not guard:
            key = f"int32-wrap:{name}"
            what = (f"evaluate(compile(..)) = {g} but the scalars sum to {w}: an int32 coefficient wraps silently "
                    f"(outside the C09 no-wrap guard) on {name}, assignment with {nset} of {n} bits set")
        else:
            key = f"value:{name}"
            what = f"evaluate(compile(..)) = {g} but the sum of pyzx evaluate_scalar is {w} (|diff| {abs(g - w):.3g} > tol {tol:.3g}) on {name}, assignment with {nset} of {n} bits set"
        ctx.violation(key, what, rp)
    ctx.sample({"case": name, "n_graphs": len(case["graphs"]), "n_params": n, "rows": len(rows), "batch": batch,
                "first_value": str(got[0]) if len(got) else None})

    # ---- exact outputs of the implementation vs the model, every row
    if m_rows is not None and worst is None and kept:
        pick = list(range(len(rows)))
        try:
            cap = exact_capture(EV, ESA, comp, rows, batch)
        except Exception as e:  # noqa
            cap = None
            ctx.log(f"exact capture failed on {name}: {type(e).__name__} {str(e)[:100]}")
        if cap is not None:
            co, po = cap
            for j, ri in enumerate(pick):
                kind, ex, ap, guard = m_rows[ri]
                if not guard:
                    continue
                ctx.count(("eager", name, ri), nontrivial=bool(kinds), bucket="exact-output-vs-model")
                if kind == 1 and co.ndim == 2:
                    mv = from_tsim_layout(tuple(ex[0][:4]), ex[0][4])
                    iv = from_tsim_layout(tuple(int(x) for x in co[j]), int(po[j]))
                    ok = mv.same(iv)
                    if (tuple(int(x) for x in co[j]), int(po[j])) == (tuple(ex[0][:4]), ex[0][4]):
                        ctx.cov["exact_outputs_identical_representation"] = ctx.cov.get("exact_outputs_identical_representation", 0) + 1
                elif kind == 2 and co.ndim == 3:
                    ok = len(ap) == co.shape[1]
                    for gi, item in enumerate(ap):
                        if not ok:
                            break
                        mv = from_tsim_layout(tuple(item[:4]), item[4])
                        iv = from_tsim_layout(tuple(int(x) for x in co[j, gi]), int(po[j, gi]))
                        ok = mv.same(iv)
                else:
                    ok = False
                if not ok:
                    ctx.broken.append(f"correspondence:evaluate exact output differs on {name} row {ri}: model {str(m_rows[ri])[:200]} impl {co[j].tolist()} {po[j].tolist()}")
                    break


# =====================================================================================
# gf2 directly
# =====================================================================================

def check_gf2(ctx: Ctx, EV, model_usable):
    import jax.numpy as jnp
    rng = ctx.np_rng()
    widths = [1, 2, 7, 64, 255, 256, 257, 300, 511, 512, 513, 1000]
    cases = []
    for wd in widths:
        for k in sorted({0, 1, 2, wd // 2, wd - 1, wd, 254, 255, 256, 257, 258}):
            if 0 <= k <= wd:
                mask = [1] * k + [0] * (wd - k)
                cases.append((mask, [1] * wd))
        for _ in range(2 if ctx.quick else 8):
            cases.append((rng.integers(0, 2, wd).tolist(), rng.integers(0, 2, wd).tolist()))
    bad = None
    for mask, bits in cases:
        a = jnp.asarray([[mask]], dtype=jnp.uint8)
        b = jnp.asarray([bits], dtype=jnp.uint8)
        got = int(np.asarray(EV._matmul_gf2(a, b))[0, 0, 0])
        want = sum(m & x for m, x in zip(mask, bits)) % 2
        ctx.count(("gf2", len(mask), sum(m & x for m, x in zip(mask, bits))), bucket="gf2")
        if got != want and bad is None:
            bad = (mask, bits, got, want)
    if bad:
        mask, bits, got, want = bad
        k = sum(m & x for m, x in zip(mask, bits))
        ctx.violation(f"gf2-parity-{k}-of-{len(mask)}",
                      f"_matmul_gf2 returns {got} for a mask selecting {k} set parameters (width {len(mask)}); the parity is {want}",
                      {"op": "gf2", "mask": mask, "bits": bits, "impl": got, "parity": want})
    if model_usable:
        sel = [c for c in cases if len(c[0]) <= 300][:60]
        vals = cq.eval_terms("c10_gf2", IMPORTS, [cq.lst([f"matmul_gf2 {cq.blist(m)} {cq.blist(b)}" for m, b in sel])])[0]
        for (m, b), v in zip(sel, vals):
            a = jnp.asarray([[m]], dtype=jnp.uint8)
            got = int(np.asarray(EV._matmul_gf2(a, jnp.asarray([b], dtype=jnp.uint8)))[0, 0, 0])
            if got != v:
                ctx.broken.append(f"correspondence:matmul_gf2 model {v} impl {got} on width {len(m)} with {sum(x & y for x, y in zip(m, b))} selected")
                break
    # empty term axis
    z = np.asarray(EV._matmul_gf2(jnp.zeros((2, 0, 5), dtype=jnp.uint8), jnp.ones((3, 5), dtype=jnp.uint8)))
    if z.shape != (3, 2, 0):
        ctx.violation("gf2-empty-shape", f"_matmul_gf2 on an empty term axis has shape {z.shape}", {"op": "gf2-empty"})


# =====================================================================================
# entry points
# =====================================================================================

def load_impl(ctx):
    try:
        import tsim.compile.evaluate as EV
        import tsim.compile.compile as CC
        from tsim.core.exact_scalar import ExactScalarArray
        return EV, ExactScalarArray, CC
    except Exception as e:  # noqa
        ctx.violation("import-failure", f"tsim.compile cannot be imported: {e!r}", {"error": repr(e)}, no_failing_input=True)
        return None


def run_model(ctx: Ctx, cases):
    """evaluate all cases in Coq; returns ({name: parsed}, {name: opaque list})"""
    out, opq = {}, {}
    skipped = set()
    chunk, size, chunks = [], 0, []
    for c in cases:
        op = []
        vid = var_ids(c, ctx.rng)
        t = model_term(c, vid, op)
        opq[c["name"]] = op
        if len(t) > (150_000 if ctx.quick else 600_000):
            # a literal of this size costs coqc minutes and gigabytes; the case still runs implementation vs exact reference
            ctx.cov["lists_too_large_for_model_run"] = ctx.cov.get("lists_too_large_for_model_run", 0) + 1
            ctx.log(f"model run skipped for {c['name']}: literal of {len(t)} characters ({len(c['graphs'])} graphs)")
            skipped.add(c["name"])
            continue
        if chunk and (size + len(t) > 400_000 or len(chunk) >= 6):
            chunks.append(chunk)
            chunk, size = [], 0
        chunk.append((c["name"], t))
        size += len(t)
    if chunk:
        chunks.append(chunk)
    import time as _t
    for i, ch in enumerate(chunks):
        t0 = _t.time()
        vals = cq.eval_terms(f"c10_cases_{i}", IMPORTS, [t for _, t in ch], defs=DEFS, timeout=1500)
        if _t.time() - t0 > 10:
            ctx.log(f"model chunk {i} took {_t.time() - t0:.1f}s: {[nm for nm, _ in ch]}")
        for (nm, _), v in zip(ch, vals):
            out[nm] = v
    for nm in skipped:
        out[nm] = "skipped"
    return out, opq


def run(ctx: Ctx) -> int:
    model_ok = standard_model_phase(ctx, TRANSLATORS, COQ_FILES, "Props.C10", "Props/C10.v")
    ctx.trusted += [
        "translator /verif/translate/matmul_gf2.py (order of `% 2` and the uint8 cast in _matmul_gf2) and exact_scalar.py",
        "hand models Model/Compile.v, Model/Evaluate.v, tied by the integer-exact table / exact-output correspondence below",
        "JAX: float32 matmul of 0/1 vectors exact below 2^24; float32->uint8 saturates at 255; uint8/int32 wrap; x[idx] clamps",
        "pyzx Scalar.evaluate_scalar is the reference semantics; its formula is restated in Props/C10.v and in exact python arithmetic, the latter cross-checked against pyzx on every case",
        "complex64 factors (approximate_floatfactor, folded phases) and to_complex are floating point: compared within single precision, opaque in the theorem",
    ]
    mods = load_impl(ctx)
    if mods is None:
        return ctx.finish("n/a")
    EV, ESA, CC = mods
    model_usable = all((COQBUILD / f).with_suffix(".vo").exists() and
                       (COQBUILD / f).with_suffix(".vo").stat().st_mtime >= (COQBUILD / f).stat().st_mtime
                       for f in ("Model/Evaluate.v", "Model/Compile.v")) and not any(
        b.startswith("translator:") or "Model/" in b or "gen/" in b or "Base/" in b for b in ctx.broken)
    if not model_usable:
        ctx.log("model not usable; running implementation vs exact reference only")

    import time as _t
    t0 = _t.time()
    check_gf2(ctx, EV, model_usable)
    ctx.log(f"gf2 phase {_t.time() - t0:.1f}s")
    t0 = _t.time()

    cases = synthetic(ctx)
    try:
        cases += harvest(ctx, 24 if ctx.quick else 120, 20 if ctx.quick else 120)
    except Exception as e:  # noqa
        ctx.broken.append(f"harvest: pipeline could not be run: {type(e).__name__}: {str(e)[:200]}")
    for c in cases:
        choose_rows(ctx, c)
    ctx.log(f"{len(cases)} cases generated/harvested in {_t.time() - t0:.1f}s")
    t0 = _t.time()
    model_out, opq = {}, {}
    if model_usable:
        try:
            model_out, opq = run_model(ctx, cases)
        except Exception as e:  # noqa
            ctx.broken.append(f"correspondence: model run failed: {str(e)[-600:]}")
            model_out = {}
    ctx.log(f"model run {_t.time() - t0:.1f}s")
    t0 = _t.time()
    for c in cases:
        t1 = _t.time()
        mo = model_out.get(c["name"]) if model_usable and model_out else None
        if mo == "skipped":
            mo = None
        elif model_usable and model_out and mo is None:
            ctx.broken.append(f"correspondence:model compile returned None on {c['name']}")
        check_case(ctx, c, mo, opq.get(c["name"], []), mods)
        if _t.time() - t1 > 5:
            ctx.log(f"slow case {c['name']}: {_t.time() - t1:.1f}s")
    ctx.log(f"implementation runs {_t.time() - t0:.1f}s")
    if "batch_sizes" in ctx.cov:
        ctx.cov["batch_sizes"] = sorted(ctx.cov["batch_sizes"])

    if ctx.broken and not ctx.violations:
        report_broken_without_input(ctx)
    return ctx.finish(
        rule="cases = lists of pyzx Scalars with a parameter list and 0/1 assignments. (a) harvested: arguments of "
             "compile_scalar_graphs recorded while tsim.Circuit(text).compile_sampler() runs on generated circuits (2-5 qubits, "
             "H/S/T/CX/CZ/rotations/U3/Pauli noise/mid-circuit M); (b) synthetic: each term type with every constant, accumulation of "
             "equal half-pi bit strings, '1' members of pi-pairs, odd/negative sqrt2 powers, dyadic factors, approximate factors, phases "
             "that are not multiples of pi/4, no terms, no parameters, zero graphs, unequal term counts, random mixtures, 300-parameter "
             "terms with 0..300 bits set, products of 30-60 factors.  Assignments: all 2^n for n <= 8 (quick) / 12 (thorough), else "
             "0..0, 1..1 and random; batch size drawn from {1..64}.  One evaluation = one assignment of one list, compared with the exact "
             "reference; non-trivial = the list has at least one parametrised/constant term (A/B/C/D).",
        explanation="Theorems C10_* over Model/Compile.v + Model/Evaluate.v (gf2 order regenerated from source); see DESIGN.md 4.C10",
        assumptions=["JAX float32 matmul of 0/1 vectors is exact below 2^24 set bits", "pyzx evaluate_scalar is the reference semantics"],
    )


def replay(ctx: Ctx, obj) -> int:
    r = obj.get("replay") or {}
    mods = load_impl(ctx)
    if mods is None:
        return 1
    EV, ESA, CC = mods
    if r.get("op") == "gf2":
        import jax.numpy as jnp
        got = int(np.asarray(EV._matmul_gf2(jnp.asarray([[r["mask"]]], dtype=jnp.uint8), jnp.asarray([r["bits"]], dtype=jnp.uint8)))[0, 0, 0])
        want = sum(m & x for m, x in zip(r["mask"], r["bits"])) % 2
        print(f"_matmul_gf2 now: {got}; parity: {want}")
        return 0 if got == want else 1
    if "graphs" not in r:
        print(json.dumps(r)[:2000])
        return 1
    case = {k: r[k] for k in ("name", "origin", "params", "graphs", "rows", "batch") if k in r}
    before = len(ctx.violations) + len(ctx.known_hits)
    check_case(ctx, case, None, [], mods)
    bad = len(ctx.violations) + len(ctx.known_hits) > before
    print("replay: the implementation still differs from the reference on this input" if bad else
          "replay: evaluate(compile(..)) now equals the sum of evaluate_scalar on this input")
    return 1 if bad else 0
