"""C15 -- program text round-trips and shorthand expands faithfully.

Tie A (translator): translate/regex_facts.py re-reads every `re.sub` / `re.match` pattern, replacement template
  and the substitution order of utils/program_text.py and core/parse.py::parse_parametric_tag (plus the shape of the
  Circuit text entry points) and regenerates gen/Gen_regex.v; the proofs (Proofs/ProgramTextProofs.v, Props/C15.v)
  are re-checked against the regenerated patterns.
Tie B (correspondence): the character-level `re` model (Model/Regex.v) running the generated patterns is compared
  STRING-EXACTLY with the running shorthand_to_stim / stim_to_shorthand / parse_parametric_tag / Fraction on
  generated program texts, token soups over the trigger alphabet, tags and all short literals.
Search / implementation check: an independent line-based reference reading of the shorthand (no regexes over the
  whole text) gives the circuit a text should denote; tsim.Circuit(text), Circuit(str(c)), eval(repr(c)),
  append_from_stim_program_text, from_file and parse_parametric_tag of every emitted tag are classified
  equal / rejected-loudly / ALTERED.  Only ALTERED is a violation (replay = the text).
"""
from __future__ import annotations

import json
import os
import re
import tempfile
import warnings
from fractions import Fraction

from harness import coqrun as cq
from harness.common import COQBUILD, Ctx, report_broken_without_input, standard_model_phase

MANIFEST = dict(
    text="Coq proofs over the regular expressions, replacement templates and substitution order regenerated from "
         "program_text.py / parse_parametric_tag on every run: for EVERY literal of the grammar [-+]?[\\d.]+ and every "
         "target text, R_X/R_Y/R_Z(l), U3(l1,l2,l3) (any blanks around the commas), T, T_DAG expand to exactly the tagged "
         "Stim instruction, the tag is read back as exactly the decimal value of l, and every malformed literal "
         "(1.2.3, ., ..) makes the tag parser raise; printed lines of the grammar S[T] / S_DAG[T] / I[R_a(..)] / "
         "I[U3(..)] / any line no pattern matches in (all 81 Stim instruction names with typical arguments, tags and "
         "targets) round-trip through stim_to_shorthand then shorthand_to_stim; texts without a trigger substring are "
         "unchanged by both functions. The unrestricted round-trip/frame statements are refuted by kernel-checked "
         "witnesses (user tags containing a keyword next to a bracket). The executable regex model is compared "
         "string-exactly with Python's re on generated programs, token soups and all short literals; the implementation "
         "(Circuit(text), Circuit(str(c)), eval(repr(c)), append, from_file, parse_parametric_tag of every emitted tag, "
         "to_matrix of rotations) is compared with an independent line-based reading of the shorthand on generated "
         "programs with adversarial literals, keyword tags/comments and REPEAT blocks; only silently ALTERED circuits "
         "are violations.",
    note="Trusted: the hand-written character-level model of Python's re for the flat regex fragment the translator "
         "accepts (tied by the string-exact correspondence), the model of Fraction(str) on [-+0-9.] strings (compared "
         "exhaustively on all such strings up to length 5/6), ASCII text only (str-mode \\w \\d \\s are Unicode aware; "
         "non-ASCII digits are exercised on the implementation only), literals shorter than CPython's 4300-digit int "
         "limit. Theorems are per line; whole-program interaction, Stim's printer/parser and flattening are covered by "
         "the correspondence only. Known findings (recorded, not repaired): the rewriting ignores tag brackets, so a "
         "user tag containing a shorthand keyword AND a '[' on an instruction whose targets contain ']' "
         "(DETECTOR[a T rec[-1] rec[-2]; DETECTOR[S[T] rec[-1] rec[-2] through str()) is silently rewritten.",
    technique="Coq proof over regenerated regex ASTs + string-exact model/implementation correspondence + reference reader",
    design_ref="DESIGN.md 4.C15",
)

TRANSLATORS = ["regex_facts"]
COQ_FILES = ["Model/Regex.v", "gen/Gen_regex.v", "Model/ProgramText.v", "Spec/TextSpec.v",
             "Proofs/RegexProofs.v", "Proofs/ProgramTextProofs.v", "Props/C15.v"]
IMPORTS = ("From Coq Require Import List Ascii String NArith ZArith Bool. Import ListNotations.\n"
           "Require Import TV.Model.Regex TV.gen.Gen_regex TV.Model.ProgramText TV.Spec.TextSpec.\nOpen Scope Z_scope.\n")
DEFS = """
Definition chk (f : str -> str) (i e : str) : list N := let o := f i in if str_eqb o e then [] else 1%N :: codes o.
Fixpoint all_strings (alpha : list ascii) (n : nat) : list str :=
  match n with
  | O => [[]]
  | S k => [] :: flat_map (fun s => map (fun a => a :: s) alpha) (all_strings alpha k)
  end.
"""

SHORT_NAMES = ("T", "T_DAG", "R_X", "R_Y", "R_Z", "U3")


# ======================================================================================
# helpers: Coq literals
# ======================================================================================
def coq_str(t: str) -> str:
    """a Coq term of type str (list ascii) for an ASCII python string"""
    if all((32 <= ord(c) < 127 or c in "\n\t") for c in t):
        return '(lit "' + t.replace('"', '""') + '")'
    return "(s_of [" + "; ".join(f"{ord(c)}%N" for c in t) + "])"


def is_ascii(t: str) -> bool:
    return all(ord(c) < 128 and ord(c) != 0 for c in t)


def decode(codes) -> str:
    return "".join(chr(int(x)) for x in codes)


# ======================================================================================
# independent reference reading of the shorthand (line based, tag/comment aware)
# ======================================================================================
DEC_RE = re.compile(r"[-+]?(?:\d+\.?\d*|\.\d+)\Z")       # \d: Unicode decimal digits, as Python's re/int accept them
LIT_CHARS = set("-+.0123456789")


def dec_value(lit: str):
    """exact value of a decimal literal, None if it is not one (independent of fractions.Fraction's parser)"""
    if not DEC_RE.match(lit):
        return None
    neg = lit.startswith("-")
    body = lit.lstrip("+-")
    ip, _, fp = body.partition(".")
    v = Fraction(int(ip or "0") * 10 ** len(fp) + int(fp or "0"), 10 ** len(fp))
    return -v if neg else v


class Reject(Exception):
    pass


def ref_expand(text: str):
    """Reference: what a program text with shorthand denotes, as (stim text, [(tag, gate, params)] in order).
    Only an instruction NAME at the start of a line (after blanks) is shorthand; tags, arguments of other
    instructions, targets and comments are never touched.  U3 arguments may be separated by any blanks
    (tsim's own grammar allows \\s*, including line breaks).  Raises Reject for a malformed shorthand call."""
    out = []
    intended = []
    lines = text.split("\n")
    i = 0
    while i < len(lines):
        line = lines[i]
        m = re.match(r"([ \t]*)([A-Za-z_][A-Za-z0-9_]*)", line)
        if not m or m.group(2) not in SHORT_NAMES:
            out.append(line)
            i += 1
            continue
        ws, name = m.group(1), m.group(2)
        rest = line[m.end():]
        if name in ("T", "T_DAG"):
            if rest and rest[0] not in " \t#":
                raise Reject(f"{name} followed by {rest[0]!r}")
            out.append(ws + ("S[T]" if name == "T" else "S_DAG[T]") + rest)
            i += 1
            continue
        # rotation / U3: arguments up to the closing parenthesis (may span lines for U3)
        joined = rest
        j = i
        while ")" not in joined and name == "U3" and j + 1 < len(lines) and joined.strip(" \t\n\r\f\v(.,+-0123456789") == "":
            j += 1
            joined += "\n" + lines[j]
        if not joined.startswith("(") or ")" not in joined:
            raise Reject(f"{name} without argument list")
        args, after = joined[1:joined.index(")")], joined[joined.index(")") + 1:]
        if name == "U3":
            parts = args.split(",")
            if len(parts) != 3:
                raise Reject("U3 needs three arguments")
            lits = [parts[0].rstrip(), parts[1].strip(), parts[2].lstrip()]
        else:
            lits = [args]
        vals = [dec_value(l) for l in lits]
        if any(v is None for v in vals):
            raise Reject(f"{name}: malformed literal in {lits}")
        if after and after[0] not in " \t#\n":
            raise Reject(f"{name}(...) followed by {after[0]!r}")
        if name == "U3":
            tag = f"U3(theta={lits[0]}*pi, phi={lits[1]}*pi, lambda={lits[2]}*pi)"
            intended.append((tag, "U3", dict(zip(("theta", "phi", "lambda"), vals))))
        else:
            tag = f"{name}(theta={lits[0]}*pi)"
            intended.append((tag, name, {"theta": vals[0]}))
        out.append(ws + f"I[{tag}]" + after)
        i = j + 1
    return "\n".join(out), intended


ASCII_WS = " \t\n\r\x0b\x0c\x1c\x1d\x1e\x1f"


def _isword(c: str) -> bool:
    return c == "_" or ("0" <= c <= "9") or ("a" <= c <= "z") or ("A" <= c <= "Z")


def ref_tag(tag: str):
    """Independent reading (no regex) of the tag grammar the simulator may interpret, for ASCII tags:
    GATE(name=literal*pi, ...) with blanks around the parameters and empty parameters skipped; one final line break is
    tolerated (Python's `$`).  Returns (0, "", {}) not a parametric tag | (1, "", {}) Fraction must raise | (2, gate, params)."""
    t = tag[:-1] if tag.endswith("\n") else tag
    if "\n" in t or not t.endswith(")") or "(" not in t:
        return (0, "", {})
    i = t.index("(")
    gate, inner = t[:i], t[i + 1:-1]
    if not gate or not all(_isword(c) for c in gate):
        return (0, "", {})
    params = {}
    for piece in inner.split(","):
        p = piece.strip(ASCII_WS)
        if not p:
            continue
        if not p.endswith("*pi") or "=" not in p:
            return (0, "", {})
        name, val = p[:-3].split("=", 1)
        body = val[1:] if val[:1] in ("+", "-") else val
        if not name or not all(_isword(c) for c in name) or not body or any(c not in "0123456789." for c in body):
            return (0, "", {})
        v = dec_value(val)
        if v is None:
            return (1, "", {})
        params[name] = v
    return (2, gate, params)


def near_miss_tags():
    out = []
    for base in ("R_Z(theta=0.5*pi)", "U3(theta=0.3*pi, phi=-.25*pi, lambda=+1.*pi)", "R_X(theta=1.2.3*pi)"):
        for k in range(len(base) + 1):
            for ch in "x *=(),.\n_1":
                out.append(base[:k] + ch + base[k:])
        for k in range(len(base)):
            out.append(base[:k] + base[k + 1:])
    return out


def eof_in_tag(text: str) -> bool:
    """stim 1.16 never returns (memory grows until killed) when the text ends inside a `[` tag: guard"""
    last = text.split("\n")[-1]
    m = re.match(r"\s*[A-Za-z0-9_]*", last)
    rest = last[m.end():]
    return rest.startswith("[") and "]" not in rest


class Guard(Exception):
    pass


# ======================================================================================
# generators
# ======================================================================================
GOOD_LITS = ["0.5", "-0.25", "+1", "5.", ".5", "00.5", "-.5", "+.5", "0", "-0", "000", "1.", "0.1234567890123456789",
             "123456789012345678901234567890.5", "+007.2500", "0.00001", "1000", "-3.14159", ".0", "0."]
BAD_LITS = ["1.2.3", ".", "..", "-.", "+.", "1..", ".5.", "1e-3", "--1", "+-1", "1-", "1+", "", " 0.5", "0.5 ", "0x10",
            "1/2", "inf", "nan", "1_0", "-", "+", "1,2", "(1)", "0.5*pi", "pi", "1e5", "5.e1"]
KEY_TAGS = ["T", "T_DAG", "R_Z(0.5)", "U3(1,2,3)", "S[T", "S_DAG[T", "I[R_X(theta=0.5*pi)",
            "I[U3(theta=1*pi, phi=2*pi, lambda=3*pi)", "a T", "a T b", " T", "T ", "[T", "T[", "a[T", "x T rec[-1",
            "R_Z(0.5) rec[-1", "a S[T", "[S[T", "T_DAGG", "XT", "T_", "_T", "R_Q(1)", "U3(1,2)", "not-a-Tgate", "T-gate",
            "aS[T", "9S_DAG[T", "aI[R_X(theta=0.5*pi)", "aR_Z(0.5)", "aU3(1,2,3)", "aT", "Ta", "T9", "S[T]a", "-T", "T-", ".T_DAG", "(T)",
            "x=R_Y(-.5)", "{U3(1,2,3)}", "#S[T", "*S_DAG[T", "!I[U3(theta=1*pi, phi=2*pi, lambda=3*pi)",
            "R_Z(theta=0.5*pi)", "U3(theta=0.5*pi)", "theta", "pi", "I", "S", "S_DAG",
            # interpreted tags whose named parameters come in another order or carry another name (legal spellings: read by name)
            "U3(theta=0.5*pi, lambda=0.25*pi, phi=-0.125*pi)", "U3(lambda=0.25*pi, phi=0.5*pi, theta=1.5*pi)",
            "U3(phi=0.5*pi, theta=0.25*pi, lambda=0.125*pi)", "R_Z(angle=0.5*pi)", "R_X(phi=0.25*pi)"]
PLAIN_TAGS = ["", "x", "tag", "a b c", "0.5", "p=0.1", "{}", "#", "a#b", "(x)", "=*+", "'", '"', "'''", "\\B", "a\\Cb",
              "\\n", "\\r", "a\\Bn", "\\Bx41", "[", "[[", "rec[-1", "a,b"]
COMMENTS = ["", " # T gate", " # apply T_DAG then R_Z(0.5)", " # U3(1,2,3) [T] S[T]", "#T", " # I[R_X(theta=1*pi)]", "  # plain"]


def gen_program(rng, adversarial: bool) -> str:
    """a Stim program text using shorthand gates; mostly valid"""
    lines = []
    nq = rng.randint(1, 4)
    nmeas = 0
    depth = 0

    def targets(k=None):
        k = k or rng.randint(1, 3)
        return " ".join(str(rng.randrange(nq + 2)) for _ in range(k))

    def tag(p_key=0.25):
        r = rng.random()
        if r < 0.55:
            return ""
        pool = KEY_TAGS if (adversarial and rng.random() < p_key) else PLAIN_TAGS
        t = rng.choice(pool)
        return f"[{t}]" if t or rng.random() < 0.5 else ""

    def lit():
        if adversarial and rng.random() < 0.3:
            return rng.choice(BAD_LITS)
        if rng.random() < 0.6:
            return rng.choice(GOOD_LITS)
        s = rng.choice(["", "", "-", "+"])
        ip = "".join(rng.choice("0123456789") for _ in range(rng.randint(0, 3)))
        fp = "".join(rng.choice("0123456789") for _ in range(rng.randint(0, 6)))
        if not ip and not fp:
            ip = "0"
        return s + ip + (("." + fp) if (fp or rng.random() < 0.3) else "")

    def ws():
        return rng.choice(["", "", "", " ", "  ", "\t"]) if adversarial else rng.choice(["", "", " "])

    n = rng.randint(1, 9)
    for _ in range(n):
        ind = "    " * depth + (rng.choice(["", "", " ", "\t"]) if adversarial else "")
        r = rng.random()
        cm = rng.choice(COMMENTS) if rng.random() < (0.35 if adversarial else 0.1) else ""
        if r < 0.12:
            lines.append(f"{ind}T{'' if rng.random() < 0.9 or not adversarial else tag()} {targets()}{cm}")
        elif r < 0.22:
            lines.append(f"{ind}T_DAG {targets()}{cm}")
        elif r < 0.42:
            ax = rng.choice("XYZ")
            lines.append(f"{ind}R_{ax}({lit()}) {targets()}{cm}")
        elif r < 0.55:
            lines.append(f"{ind}U3({lit()}{ws()},{ws()}{lit()}{ws()},{ws()}{lit()}) {targets()}{cm}")
        elif r < 0.70:
            g = rng.choice(["H", "X", "S", "S_DAG", "SQRT_X", "I", "Z", "H_YZ", "C_XYZ"])
            if rng.random() < 0.3:
                # an interpreted tag written by hand: same parameters, non-canonical spacing around the separators / inside the brackets
                nm = rng.choice(["R_X", "R_Y", "R_Z", "U3", "U3"])
                names = ["theta", "phi", "lambda"][: (3 if nm == "U3" else 1)]
                sep = rng.choice([",", ", ", " , ", ",  ", " ,"])
                body = nm + "(" + sep.join(f"{k}={rng.choice(GOOD_LITS)}*pi" for k in names) + ")"
                lines.append(f"{ind}I[{body}] {targets()}{cm}")
            else:
                lines.append(f"{ind}{g}{tag()} {targets()}{cm}")
        elif r < 0.78:
            g = rng.choice(["CX", "CZ", "SWAP", "ISWAP"])
            a = rng.randrange(nq + 1)
            lines.append(f"{ind}{g}{tag()} {a} {a + 1}{cm}")
        elif r < 0.84:
            g = rng.choice(["X_ERROR", "DEPOLARIZE1", "Z_ERROR"])
            lines.append(f"{ind}{g}{tag()}({rng.choice(['0.125', '0.25', '0.001'])}) {targets()}{cm}")
        elif r < 0.91:
            g = rng.choice(["M", "MR", "MX"])
            k = rng.randint(1, 2)
            lines.append(f"{ind}{g}{tag()} {targets(k)}{cm}")
            nmeas += k
        elif r < 0.96 and nmeas >= 2:
            g = rng.choice(["DETECTOR", "OBSERVABLE_INCLUDE(0)"])
            if g.startswith("OBS"):
                lines.append(f"{ind}OBSERVABLE_INCLUDE{tag()}(0) rec[-1]{cm}")
            else:
                lines.append(f"{ind}DETECTOR{tag(0.6)} rec[-1] rec[-2]{cm}")
        elif r < 0.98 and depth == 0:
            lines.append(f"{ind}REPEAT {rng.randint(1, 3)} {{")
            depth += 1
            lines.append("    " * depth + rng.choice(["T 0", "R_X(0.25) 1", "H 0", "U3(0.5, -1, +.25) 0", "T_DAG 1 0"]))
        else:
            lines.append(f"{ind}TICK{cm}")
    while depth > 0:
        depth -= 1
        lines.append("    " * depth + "}")
    if adversarial and rng.random() < 0.2:
        lines.insert(rng.randrange(len(lines) + 1), "")
    text = "\n".join(lines)
    if rng.random() < 0.3:
        text += "\n"
    return text


SOUP = ["T", "T_DAG", "S[T]", "S_DAG[T]", "S", "_DAG", "[", "]", "[T]", "R_", "R_Z(", "R_X(", "R_Q(", "U3(", "I[", "I[R_Y(theta=",
        "I[U3(theta=", "*pi", "*pi)]", "*pi, phi=", "*pi, lambda=", "0.5", "-1", "+.25", "1.2.3", ".", "-", "+", ")", "(", ",", ", ",
        " ", "  ", "\n", "\t", "a", "_", "0", "9", "X", "#", "=", "theta=", "pi", "\x1c", "\r", "{", "}", "!"]


def gen_soup(rng) -> str:
    return "".join(rng.choice(SOUP) for _ in range(rng.randint(1, 12)))


def gen_tag(rng) -> str:
    r = rng.random()
    if r < 0.45:
        # well-formed tag; with probability 1/3 exactly one malformed literal, sometimes one structural corruption
        g = rng.choice(["R_Z", "R_X", "R_Y", "U3", "U3", "FOO"])
        names = ["theta", "phi", "lambda"][: (3 if g == "U3" else 1)]
        bad_at = rng.randrange(len(names)) if rng.random() < 0.33 else -1
        ps = [f"{nm}={rng.choice(BAD_LITS) if i == bad_at else rng.choice(GOOD_LITS)}*pi" for i, nm in enumerate(names)]
        t = g + "(" + rng.choice([", ", ",", " , "]).join(ps) + ")"
        if rng.random() < 0.2:
            k = rng.randrange(len(t) + 1)
            t = t[:k] + rng.choice([" ", "\n", ")", "(", ",", "=", "x", "*", ""]) + t[k + rng.randint(0, 1):]
        return t
    if r < 0.6:
        g = rng.choice(["R_Z", "R_X", "R_Y", "U3", "FOO", "R_", "r_z", "R_Z9", ""])
        n = rng.randint(0, 3)
        ps = []
        for _ in range(n):
            nm = rng.choice(["theta", "phi", "lambda", "x", "theta ", "", "th-eta", "theta2"])
            v = rng.choice(GOOD_LITS + BAD_LITS)
            suffix = rng.choice(["*pi", "*pi", "*pi", "", "*p", " *pi", "*pi ", "pi", "*PI"])
            ps.append(rng.choice(["", " ", "\t", "\x1c"]) + nm + "=" + v + suffix + rng.choice(["", " ", "\x1f"]))
        sep = rng.choice([",", ", ", " ,", ",,"])
        return g + rng.choice(["(", "(", "((", ""]) + sep.join(ps) + rng.choice([")", ")", "))", ")\n", ")\n\n", ") ", ""])
    if r < 0.75:
        return rng.choice(KEY_TAGS + PLAIN_TAGS)
    return "".join(rng.choice(["R_Z", "(", ")", "theta", "=", "0.5", "*pi", ",", " ", "\n", "U3", "x", ".", "-", "\t", "1"]) for _ in range(rng.randint(0, 9)))


# ======================================================================================
# the check
# ======================================================================================
def run(ctx: Ctx) -> int:
    model_ok = standard_model_phase(ctx, TRANSLATORS, COQ_FILES, "Props.C15", "Props/C15.v")
    ctx.trusted += [
        "translator /verif/translate/regex_facts.py (regex strings / templates / order -> Gallina; fail-closed on anything "
        "outside the flat fragment) -- tied by the string-exact correspondence below",
        "hand model Model/Regex.v of Python re (leftmost, greedy with backtracking, \\b ^ $ look-around) and of "
        "str.split/strip/Fraction(str) in Model/ProgramText.v -- tied by the correspondence below; ASCII only",
        "stim's text parser/printer and flattened() (oracle; exercised, not modelled)",
    ]
    try:
        import stim
        import tsim
        from tsim.core.parse import parse_parametric_tag as ppt
        from tsim.utils.program_text import shorthand_to_stim as s2s, stim_to_shorthand as sh
    except Exception as e:
        ctx.violation("import-failure", f"tsim cannot be imported: {e!r}", {"error": repr(e)}, no_failing_input=True)
        return ctx.finish("n/a")

    quick = ctx.quick
    rng = ctx.rng
    model_usable = all((COQBUILD / (f + "o")).exists() and (COQBUILD / (f + "o")).stat().st_mtime >= (COQBUILD / f).stat().st_mtime
                       for f in ["Model/Regex.v", "gen/Gen_regex.v", "Model/ProgramText.v", "Spec/TextSpec.v"]) \
        and not any(b.startswith("translator:") for b in ctx.broken)
    if not model_usable:
        ctx.log("executable model not available; running the implementation-vs-reference search only")

    # ------------------------------------------------------------------ inputs
    n_prog = 260 if quick else 2600
    programs = [gen_program(rng, adversarial=(i % 3 != 0)) for i in range(n_prog)]
    curated = [
        "T 0 1\nT_DAG 2", "R_Z(0.3) 0", "R_X(0.25) 0\nR_Y(-0.5) 0", "U3(0.3, 0.24, 0.49) 0", "X[R_Z(0.5)] 0", "H 0 # T gate",
        "I[T] 0", "S[T] 0\nS_DAG[T] 1", "M 0 1\nDETECTOR[a T rec[-1] rec[-2]", "M 0 1\nDETECTOR[R_Z(0.5) rec[-1] rec[-2]",
        "M 0 1\nDETECTOR[x U3(1,2,3) rec[-1] rec[-2]", "M 0 1\nDETECTOR[ T_DAG rec[-1] rec[-2]",
        "R_Z(1.2.3) 0", "R_Z(.) 0", "R_Z(+) 0", "R_Z(--1) 0", "R_Z(1e-3) 0", "R_Z(00.5) 0", "R_Z(5.) 0", "R_Z(.5) 0",
        "U3(0.1,0.2,\n0.3) 0", "U3( 0.1,0.2,0.3) 0", "REPEAT 2 {\n    T 0\n    R_X(0.25) 1\n}", "T[foo] 0", "T_DAG[x] 0",
        "R_Z(0.5)[tag] 0", "TICK\nDETECTOR\nSQRT_X 0\nT 0", "T", "T_DAG", "  T 0", "T\t0", "XT 0", "T_ 0", "_T 0",
        "X 0 # R_Z(0.5) U3(1,2,3)", "MPP X0*X1 # T", "R_Z(0.5)0", "T 0\n\n\nT 1\n", "X[a T b] 0", "X[T] 0", "X[ T] 0",
        "R_Z(0.5) 0 R_Z(0.25) 1", "CX[T_DAG] 0 1", "M[S[T] 0\nH 0", "R_Z(" + "1" * 50 + "." + "3" * 50 + ") 0",
    ]
    texts = curated + programs
    soups = [gen_soup(rng) for _ in range(500 if quick else 5000)]

    # ------------------------------------------------------------------ B1: model vs Python, string exact
    if model_usable:
        _model_vs_python(ctx, "s2s", "shorthand_to_stim", s2s, [t for t in texts + soups if is_ascii(t)])
        printed_like = [s2s(t) for t in texts if is_ascii(t)] + [gen_soup(rng) for _ in range(300 if quick else 3000)]
        _model_vs_python(ctx, "sh", "stim_to_shorthand", sh, printed_like)
        _model_tags(ctx, ppt, near_miss_tags() + [gen_tag(rng) for _ in range(400 if quick else 4000)] + [
            "R_Z(theta=0.5*pi)", "R_Z(theta=0.5*pi)\n", "R_Z(theta=1.2.3*pi)", "R_Z(theta=+*pi)", "R_Z( theta=0.5*pi , )",
            "R_Z()", "U3(theta=0.1*pi, phi=-.2*pi, lambda=+3.*pi)", "R_Z(theta=0.5*pi,theta=0.25*pi)", "R_Z(theta=.*pi, x)",
            "R_Z(x, theta=.*pi)", "FOO(a=1*pi)(b=2*pi)", "R_Z(theta=1*pi)\n\n", "R_Z(theta=1*pi\n)", "(a=1*pi)", "T", ""])
        _model_fraction(ctx, ppt, 5 if quick else 6)
        _model_gate_names(ctx, stim)

    # ------------------------------------------------------------------ B2: implementation vs independent reference
    # which tags does the simulator interpret, and as what?  (running parse_parametric_tag vs the reference tag reader)
    for t in dict.fromkeys(near_miss_tags() + [gen_tag(rng) for _ in range(600 if quick else 6000)]):
        if not is_ascii(t):
            continue
        py, want = _py_ppt(ppt, t), ref_tag(t)
        ctx.count(("reftag", t), nontrivial=(want[0] != 0), bucket=f"tag-grammar-{['none', 'raises', 'ok'][want[0]]}")
        if py != want:
            names = ["is not a parametric tag (plain identity)", "must be refused (malformed literal)", f"denotes {want[1:]}"]
            got = ["returns None", "raises", f"returns {py[1:]}"]
            ctx.violation(f"tag-grammar:{t[:60]}", f"I[{t!r}]: parse_parametric_tag {got[py[0]]} but the tag {names[want[0]]}",
                          {"kind": "tag-grammar", "text": t})
            break
    def make(text):
        expanded = s2s(text)
        if eof_in_tag(expanded):
            raise Guard()
        return tsim.Circuit(text)

    def classify_ctor(text):
        """-> (outcome, detail, circuit)"""
        try:
            ref_text, intended = ref_expand(text)
            ref = None if eof_in_tag(ref_text) else stim.Circuit(ref_text).flattened()
        except Exception:
            ref, intended = None, None
        try:
            c = make(text)
        except Guard:
            return "guard", "", None
        except Exception:
            return "rejected-loudly", "", None
        got = c._stim_circ
        if ref is not None and got == ref:
            # every shorthand instruction must be read back by the simulator's tag parser as the intended value
            tags_seen = [ins.tag for ins in got if ins.name == "I" and ins.tag]
            want_tags = [t for (t, _, _) in intended]
            for (tag, gate, params) in intended:
                try:
                    r = ppt(tag)
                except Exception as e:
                    return "altered", f"parse_parametric_tag({tag!r}) raised {e!r} for a well-formed literal", c
                if r is None or r[0] != gate or r[1] != params:
                    return "altered", f"parse_parametric_tag({tag!r}) = {r!r}, intended ({gate!r}, {params!r})", c
            if not all(t in tags_seen for t in want_tags) and "REPEAT" not in text:
                return "altered", f"emitted tags {tags_seen} lack intended {want_tags}", c
            return "equal", "", c
        # accepted, but differs from the reference reading (or the reference rejects): loud later?
        late = False
        for ins in got:
            if ins.name == "I" and ins.tag:
                try:
                    ppt(ins.tag)
                except ValueError:
                    late = True
        if ref is None and late:
            return "rejected-late", "", c      # e.g. R_Z(1.2.3): accepted as text, Fraction raises when simulated
        return "altered", (f"tsim.Circuit(text) = {str(got)!r} but the text denotes "
                           f"{('nothing (malformed)' if ref is None else repr(str(ref)))}"), c

    def shrink_ctor(text):
        lines = text.split("\n")
        changed = True
        while changed and len(lines) > 1:
            changed = False
            for k in range(len(lines)):
                cand = lines[:k] + lines[k + 1:]
                try:
                    if classify_ctor("\n".join(cand))[0] == "altered":
                        lines, changed = cand, True
                        break
                except Exception:
                    pass
        return "\n".join(lines)

    altered = []        # (direction, text, what)
    outcomes = {"equal": 0, "rejected-loudly": 0, "rejected-late": 0, "altered": 0, "guard": 0}
    accepted = []
    for idx, text in enumerate(texts + ["R_Z(٣) 0", "R_Z(0.5) 0 # café T", "X[é T] 0"]):
        nontriv = any(k in text for k in ("T", "R_", "U3"))
        ctx.count(("ctor", text), nontrivial=nontriv, bucket="ctor-curated" if idx < len(curated) else "ctor-generated")
        outcome, detail, c = classify_ctor(text)
        outcomes[outcome] += 1
        if outcome == "equal":
            accepted.append((text, c))
        elif outcome == "altered":
            small = shrink_ctor(text)
            altered.append(("ctor", small, classify_ctor(small)[1]))
    ctx.cov["constructor_outcomes"] = dict(outcomes)
    if accepted:
        ctx.sample({"text": accepted[0][0], "circuit": str(accepted[0][1]._stim_circ)})

    # ---- C15_expand on the implementation: the canonical shorthand forms expand to exactly the tagged instruction
    _expand_forms(ctx, s2s, ppt, 120 if quick else 1200)

    # ---- late rejection really is loud: the simulator refuses the malformed tag
    for lit in ["1.2.3", ".", "-.", ".."]:
        ctx.count(("late", lit), bucket="late-rejection")
        try:
            c = tsim.Circuit(f"R_Z({lit}) 0")     # rejecting here (early) is loud as well
            c.get_graph()
            ctx.violation(f"malformed-literal-accepted:{lit}", f"R_Z({lit}) 0 was simulated without an error",
                          {"kind": "late", "text": f"R_Z({lit}) 0"})
        except Exception:
            pass

    # ---- str / repr round trip
    rt = {"equal": 0, "rejected-loudly": 0, "altered": 0, "guard": 0}
    circuits = [(t, c) for t, c in accepted]
    stim_level = []
    for name, tg in [("X", " 0"), ("DETECTOR", " rec[-1] rec[-2]"), ("CX", " rec[-1] 1 0 2"), ("M", " 0"), ("TICK", ""),
                     ("OBSERVABLE_INCLUDE", "(0) rec[-1] rec[-2]"), ("I", " 0"), ("S", " 0"), ("S_DAG", " 1")]:
        for t in KEY_TAGS + PLAIN_TAGS:
            stim_level.append(f"M 0 1\n{name}[{t}]{tg}\nH 0")
            if not quick or rng.random() < 0.25:
                stim_level.append(f"M 0 1\n{name}[{t}]{tg}")
    for t in stim_level:
        if eof_in_tag(t):
            continue
        try:
            sc = stim.Circuit(t)
        except Exception:
            continue
        circuits.append((t, tsim.Circuit.from_stim_program(sc)))
    for text, c in circuits:
        printed = str(c)
        ctx.count(("rt", printed), nontrivial=any(k in printed for k in ("T", "R_", "U3")), bucket="roundtrip")
        for kind, thunk in (("str", lambda: make(printed)), ("repr", lambda: _eval_repr(tsim, repr(c), s2s))):
            try:
                c2 = thunk()
            except Guard:
                rt["guard"] += 1
                continue
            except Exception:
                rt["rejected-loudly"] += 1
                continue
            if c2 == c:
                rt["equal"] += 1
            else:
                rt["altered"] += 1
                altered.append(("roundtrip-" + kind, str(c._stim_circ),
                                f"{'Circuit(str(c))' if kind == 'str' else 'eval(repr(c))'} = {str(c2._stim_circ)!r} but c = {str(c._stim_circ)!r} (str(c) = {printed!r})"))
    ctx.cov["roundtrip_outcomes"] = dict(rt)
    # report: one violation per class of in-tag rewriting (stable keys), and the 3 shortest unclassified texts
    unclassified = []
    for direction, text, what in altered:
        cls = _classify(text, s2s, sh)
        if cls == "other" and direction != "ctor":
            cls = _classify(sh(text), s2s, sh)
        if cls == "other":
            unclassified.append((direction, text, what))
        else:
            ctx.violation(f"altered:{cls}", f"[{direction}] silently altered: {what}", {"kind": direction, "text": text})
    for direction, text, what in sorted(unclassified, key=lambda a: (len(a[1]), a[1]))[:3]:
        ctx.violation(f"altered:{direction}:{text[:60]}", f"[{direction}] silently altered: {what}", {"kind": direction, "text": text})
    ctx.cov["altered_cases_total"] = len(altered)
    ctx.cov["stim_never_returns_on_text_ending_inside_a_tag"] = (
        "guarded: texts whose last line ends inside `[` (e.g. str() of a circuit ending in X[S[T] 0 prints X[T 0) are not "
        "passed to stim 1.16 (its parser does not terminate); counted under 'guard'")

    # ---- printing is a function of the CURRENT circuit: str()/repr() interleaved with every mutating method on one object
    #      (pop, pop(i), +=, *=, append_from_stim_program_text); after each step str(c) must equal the text of a fresh circuit with the
    #      same content, and must read back to c
    hist_rng = ctx.np_rng()
    pool = [(t, c) for t, c in accepted if len(c) >= 2][: (60 if quick else 600)]
    for text, c0 in pool:
        try:
            c = c0.copy()
        except Exception:
            continue
        ops_done = []
        bad_h = None
        try:
            rt_ok = make(str(c0)) == c0      # texts whose round trip is altered already (recorded classes) are not asked to round-trip here
        except Exception:
            rt_ok = False
        for step in range(4):
            _ = str(c), repr(c)          # print before the mutation
            op = ["pop", "pop0", "iadd", "imul", "append", "append_shift"][int(hist_rng.integers(0, 6))]
            try:
                if op == "pop" and len(c) > 1:
                    c.pop()
                elif op == "pop0" and len(c) > 1:
                    c.pop(0)
                elif op == "iadd":
                    c += tsim.Circuit("T 0\nR_Z(0.25) 1")
                elif op == "imul":
                    c *= 2
                elif op == "append":
                    c.append_from_stim_program_text("U3(0.5, 0.25, -0.125) 0\nH 1")
                elif op == "append_shift":
                    c.append_from_stim_program_text("M 0\nSHIFT_COORDS(0, 1)\nQUBIT_COORDS(2, 3) 1\nDETECTOR(1, 1) rec[-1]\nT 1")
                else:
                    continue
            except Exception:
                break
            ops_done.append(op)
            fresh = tsim.Circuit.from_stim_program(c._stim_circ.copy())
            ctx.count(("history", text, tuple(ops_done)), nontrivial=True, bucket="print-after-mutation")
            if str(c) != str(fresh) or repr(c) != repr(fresh):
                bad_h = f"after str(c); {'; '.join(ops_done)}: str(c) = {str(c)!r} but the circuit now is {str(fresh)!r}"
                break
            if not rt_ok:
                continue
            try:
                back = make(str(c))
            except Exception:
                continue
            if back != c:
                bad_h = f"after {'; '.join(ops_done)}: Circuit(str(c)) = {str(back._stim_circ)!r} but c = {str(c._stim_circ)!r}"
                break
        if bad_h:
            ctx.violation("print-after-mutation:" + ops_done[-1], f"str()/repr() do not show the current circuit: {bad_h}",
                          {"kind": "history", "text": text, "ops": ops_done})
            break

    # ---- append_from_stim_program_text / from_file use the same rewriting
    for text, c in accepted[: (40 if quick else 400)]:
        ctx.count(("append", text), bucket="append/from_file")
        a = tsim.Circuit()
        a.append_from_stim_program_text(text)
        with tempfile.NamedTemporaryFile("w", suffix=".stim", delete=False, encoding="utf-8") as f:
            f.write(text)
        try:
            b = tsim.Circuit.from_file(f.name)
        finally:
            os.unlink(f.name)
        if a != c or b != c:
            ctx.violation("entry-points-disagree", f"append_from_stim_program_text / from_file differ from Circuit(text) on {text!r}",
                          {"kind": "entry", "text": text})
            break

    # ---- the expanded instruction denotes the documented rotation (dispatch on the parsed tag)
    _rotation_semantics(ctx, tsim, 6 if quick else 24)

    # ------------------------------------------------------------------ verdict on broken ties
    if ctx.broken and not ctx.violations:
        report_broken_without_input(ctx)
    return ctx.finish(
        rule="program texts from one PRNG (VERIF_SEED): Stim-grammar lines (gates, noise, measurements, DETECTOR/OBSERVABLE, "
             "REPEAT blocks, TICK) mixed with T/T_DAG/R_X/R_Y/R_Z/U3 lines, literals from a pool of decimals (signs, leading/"
             "trailing dots, leading zeros, 20..50 digits) and malformed ones (1.2.3 . -- 1e-3 blanks), tags and comments "
             "containing the keywords, blank lines, tabs; token soups over the trigger alphabet; generated tags; ALL strings "
             "over -+.019 up to length 5 (quick) / 6 (thorough) for Fraction. non-trivial = the text contains T, R_ or U3. "
             "Model and Python compared string-exactly; implementation compared with an independent line-based reference "
             "reader (outcomes equal / rejected-loudly / rejected-late / altered; only altered is a violation).",
        explanation="Theorems C15_* over the regenerated patterns; see DESIGN.md 4.C15",
        assumptions=["ASCII program text", "literals shorter than CPython's 4300-digit int limit"],
    )


def _eval_repr(tsim, r: str, s2s):
    """eval(repr(c)); the text that would reach stim is computed first with a recording stand-in for tsim.Circuit
    so that the unterminated-tag guard can be applied (a SyntaxError etc. propagates = rejected loudly)"""
    import types
    with warnings.catch_warnings():
        warnings.simplefilter("ignore")
        inner = eval(r, {"tsim": types.SimpleNamespace(Circuit=lambda t="": t)})
        if not isinstance(inner, str):
            raise ValueError("repr does not evaluate to a Circuit(...) call on a string")
        if eof_in_tag(s2s(inner)):
            raise Guard()
        return eval(r, {"tsim": tsim})


def _tag_regions(line: str):
    """(start, end) of the tag of an instruction line, by the instruction grammar NAME[tag]..."""
    m = re.match(r"\s*[A-Za-z0-9_]*\[", line)
    if not m:
        return None
    end = line.find("]", m.end())
    return (m.end(), len(line) if end < 0 else end)


def _char_class(c: str) -> str:
    if c == "":
        return "tag-start"
    if c in ASCII_WS:
        return "blank"
    if _isword(c):
        return "word"
    if c in "[]":
        return "bracket"
    return "punct"


def _classify(text: str, s2s, sh) -> str:
    """which rewriting step changed text inside a tag, and what precedes the keyword there: stable class key of an
    ALTERED case (the known findings are exactly: a keyword at a word start inside a tag that also contains '[')"""
    for fn, f, kws in (("stim_to_shorthand", sh, ["I[U3(theta=", "I[R_", "S_DAG[T]", "S[T]"]),
                       ("shorthand_to_stim", s2s, ["T_DAG", "U3(", "R_X(", "R_Y(", "R_Z(", "T"])):
        for line in text.split("\n"):
            reg = _tag_regions(line)
            if reg is None or f(line) == line:
                continue
            inside = line[reg[0]:reg[1] + 1]
            for kw in kws:
                k = inside.find(kw)
                if k >= 0:
                    prev = _char_class(inside[k - 1] if k > 0 else "")
                    return f"{fn}:{'R_' if kw.startswith('R_') else kw}-inside-tag-after-{prev}"
    return "other"


def _model_vs_python(ctx, tag, fname, pyf, inputs):
    inputs = list(dict.fromkeys(inputs))
    bad = None
    for k in range(0, len(inputs), 400):
        chunk = inputs[k:k + 400]
        terms = ["[" + "; ".join(f"chk {fname} {coq_str(t)} {coq_str(pyf(t))}" for t in chunk) + "]"]
        vals = cq.eval_terms(f"c15_{tag}_{k // 400}", IMPORTS, terms, defs=DEFS)[0]
        for t, v in zip(chunk, vals):
            ctx.count((tag, t), nontrivial=(pyf(t) != t), bucket=f"model-{tag}")
            if v != [] and bad is None:
                bad = (t, decode(v[1:]), pyf(t))
    if bad:
        ctx.broken.append(f"correspondence:{fname} model {bad[1]!r} python {bad[2]!r} on {bad[0]!r}")
        ctx.log("MODEL/PYTHON DISAGREE", fname, bad)
    else:
        ctx.sample({"fn": fname, "in": inputs[0], "out": pyf(inputs[0])})


def _py_ppt(ppt, t):
    try:
        r = ppt(t)
    except ValueError:
        return (1, "", {})
    if r is None:
        return (0, "", {})
    return (2, r[0], dict(r[1]))


def _model_tags(ctx, ppt, tags):
    tags = [t for t in dict.fromkeys(tags) if is_ascii(t)]
    vals = []
    for k in range(0, len(tags), 400):
        vals += cq.eval_terms(f"c15_tags_{k // 400}", IMPORTS, ["[" + "; ".join(f"ppt_show (parse_parametric_tag {coq_str(t)})" for t in tags[k:k + 400]) + "]"], defs=DEFS)[0]
    for t, v in zip(tags, vals):
        kind, gate, params = int(v[0]), decode(v[1]), {decode(p[0]): Fraction(int(p[1]), 10 ** int(p[2])) for p in v[2]}
        py = _py_ppt(ppt, t)
        ctx.count(("tag", t), nontrivial=(py[0] != 0), bucket=f"model-tag-{['none', 'raises', 'ok'][py[0]]}")
        if (kind, gate, params) != py or (kind == 2 and [decode(p[0]) for p in v[2]] != list(py[2].keys())):
            ctx.broken.append(f"correspondence:parse_parametric_tag model {(kind, gate, params)} python {py} on {t!r}")
            ctx.log("MODEL/PYTHON DISAGREE parse_parametric_tag", repr(t))
            break


def _model_fraction(ctx, ppt, n):
    """ALL strings over -+.019 up to length n inside `G(x=<s>*pi)`: which are let through by the parameter regex,
    and what Fraction makes of them (model vs Python vs the reference decimal reader)"""
    import itertools
    alpha = "-+.019"
    term = ("flat_map (fun s => match parse_parametric_tag (lit \"G(x=\" ++ s ++ lit \"*pi)\") with "
            "| PNone => [] | PError => [(codes s, (0, (-1)))] "
            "| POk _ [(_, (m, k))] => [(codes s, (m, Z.of_nat k))] | POk _ _ => [(codes s, (0, (-2)))] end) "
            f"(all_strings {coq_str(alpha)} {n}%nat)")
    vals = cq.eval_terms("c15_frac", IMPORTS, [term], defs=DEFS)[0]
    vals = [(v[0], v[1][0], v[1][1]) for v in vals]
    model = {decode(v[0]): (None if int(v[2]) < 0 else Fraction(int(v[1]), 10 ** int(v[2]))) for v in vals}
    if any(int(v[2]) == -2 for v in vals):
        ctx.broken.append("correspondence:Fraction sweep: model returned an unexpected dict shape")
    py = {}
    for k in range(0, n + 1):
        for tup in itertools.product(alpha, repeat=k):
            s = "".join(tup)
            try:
                r = ppt("G(x=" + s + "*pi)")
            except ValueError:
                py[s] = None
                continue
            if r is not None:
                py[s] = r[1]["x"]
    for s, v in py.items():
        ctx.count(("frac", s), nontrivial=v is not None, bucket="model-fraction")
    if set(py) != set(model):
        ctx.broken.append(f"correspondence:literal grammar: model lets through {len(model)} strings, python {len(py)}; e.g. {sorted(set(py) ^ set(model))[:5]}")
        return
    for s, v in py.items():
        if model[s] != v or dec_value(s) != v:
            ctx.broken.append(f"correspondence:Fraction({s!r}) python {v} model {model[s]} reference {dec_value(s)}")
            return


def _model_gate_names(ctx, stim):
    names = sorted(stim.gate_data().keys())
    vals = cq.eval_terms("c15_names", IMPORTS, ["map (fun n => codes (lit n)) stim_gate_names"], defs=DEFS)[0]
    mine = [decode(v) for v in vals]
    ctx.count("gate-names", bucket="gate-names")
    if mine != names:
        ctx.broken.append(f"correspondence:stim_gate_names differs from stim.gate_data(): {sorted(set(mine) ^ set(names))}")


def _expand_forms(ctx, s2s, ppt, n):
    """the statement of C15_expand_* evaluated on the running code: string-exact expansion and exact tag values"""
    rng = ctx.rng
    blanks = ["", "", " ", "  ", "\t", " \t "]
    cases = [("T 0 1", "S[T] 0 1", None), ("T_DAG 2", "S_DAG[T] 2", None), ("T", "S[T]", None), ("T_DAG", "S_DAG[T]", None),
             ("U3(0.3,0.24,0.49) 0", "I[U3(theta=0.3*pi, phi=0.24*pi, lambda=0.49*pi)] 0",
              ("U3(theta=0.3*pi, phi=0.24*pi, lambda=0.49*pi)", "U3", ["0.3", "0.24", "0.49"]))]
    for _ in range(n):
        tail = rng.choice(["", " 0", " 0 1 2", " 3\n", "\t5", " 0 # plain comment", " 1\n    h 0"])
        if rng.random() < 0.5:
            ax, l = rng.choice("XYZ"), rng.choice(GOOD_LITS)
            cases.append((f"R_{ax}({l}){tail}", f"I[R_{ax}(theta={l}*pi)]{tail}", (f"R_{ax}(theta={l}*pi)", f"R_{ax}", [l])))
        else:
            ls = [rng.choice(GOOD_LITS) for _ in range(3)]
            w = [rng.choice(blanks) for _ in range(4)]
            tag = f"U3(theta={ls[0]}*pi, phi={ls[1]}*pi, lambda={ls[2]}*pi)"
            cases.append((f"U3({ls[0]}{w[0]},{w[1]}{ls[1]}{w[2]},{w[3]}{ls[2]}){tail}", f"I[{tag}]{tail}", (tag, "U3", ls)))
    for text, want, tg in cases:
        ctx.count(("expand", text), bucket="expand-forms")
        got = s2s(text)
        if got != want:
            ctx.violation(f"expand:{text[:50]}", f"shorthand_to_stim({text!r}) = {got!r}, the shorthand denotes {want!r}",
                          {"kind": "expand", "text": text, "want": want})
            return
        if tg:
            tag, gate, lits = tg
            params = dict(zip(("theta", "phi", "lambda"), [dec_value(l) for l in lits]))
            try:
                r = ppt(tag)
            except Exception as e:
                r = repr(e)
            if r != (gate, params):
                ctx.violation(f"expand-tag:{tag[:50]}", f"parse_parametric_tag({tag!r}) = {r!r}, intended {(gate, params)!r}",
                              {"kind": "tag", "text": tag, "want": [gate, {k: str(v) for k, v in params.items()}]})
                return


def _rotation_semantics(ctx, tsim, n):
    import numpy as np
    lits = ["0.5", "-0.25", "+1", "5.", ".5", "00.5", "0.1234567890123456789", "0.00001", "-3.14159", "1000", ".0", "+007.2500"]
    rng = ctx.rng
    for i in range(n):
        kind = ["R_X", "R_Y", "R_Z", "U3"][i % 4]
        ls = [rng.choice(lits) for _ in range(3)]
        vs = [float(dec_value(l)) * np.pi for l in ls]
        if kind == "U3":
            text = f"U3({ls[0]}, {ls[1]},{ls[2]}) 0"
            t, p, l = vs
            want = np.array([[np.cos(t / 2), -np.exp(1j * l) * np.sin(t / 2)],
                             [np.exp(1j * p) * np.sin(t / 2), np.exp(1j * (p + l)) * np.cos(t / 2)]])
        else:
            text = f"{kind}({ls[0]}) 0"
            a = vs[0]
            P = {"R_X": np.array([[0, 1], [1, 0]]), "R_Y": np.array([[0, -1j], [1j, 0]]), "R_Z": np.array([[1, 0], [0, -1]])}[kind]
            want = np.cos(a / 2) * np.eye(2) - 1j * np.sin(a / 2) * P
        ctx.count(("sem", text), bucket="rotation-semantics")
        try:
            got = np.asarray(tsim.Circuit(text).to_matrix())
        except Exception as e:
            ctx.violation(f"rotation-semantics:{kind}", f"{text!r} (a documented shorthand form) is rejected: {e!r}",
                          {"kind": "sem", "text": text})
            break
        k = np.argmax(np.abs(want))
        ph = got.flat[k] / want.flat[k]
        if abs(abs(ph) - 1) > 1e-5 or np.max(np.abs(got - ph * want)) > 1e-5:
            ctx.violation(f"rotation-semantics:{kind}", f"{text!r} does not denote the documented {kind} matrix (up to phase)",
                          {"kind": "sem", "text": text, "got": str(got), "want": str(want)})
            break


def replay(ctx: Ctx, obj) -> int:
    import stim
    import tsim
    from tsim.utils.program_text import shorthand_to_stim as s2s, stim_to_shorthand as sh
    r = obj.get("replay") or {}
    print(json.dumps(r)[:2000])
    text = r.get("text")
    if text is None:
        return 1
    kind = r.get("kind", "ctor")
    if kind == "history":
        c = tsim.Circuit(text)
        for op in r.get("ops", []):
            _ = str(c), repr(c)
            if op == "pop":
                c.pop()
            elif op == "pop0":
                c.pop(0)
            elif op == "iadd":
                c += tsim.Circuit("T 0\nR_Z(0.25) 1")
            elif op == "imul":
                c *= 2
            elif op == "append":
                c.append_from_stim_program_text("U3(0.5, 0.25, -0.125) 0\nH 1")
            elif op == "append_shift":
                c.append_from_stim_program_text("M 0\nSHIFT_COORDS(0, 1)\nQUBIT_COORDS(2, 3) 1\nDETECTOR(1, 1) rec[-1]\nT 1")
        fresh = tsim.Circuit.from_stim_program(c._stim_circ.copy())
        print("str(c):", repr(str(c)), "current circuit:", repr(str(fresh)))
        ok_back = True
        try:
            ok_back = tsim.Circuit(str(c)) == c
        except Exception:
            pass
        return 0 if str(c) == str(fresh) and repr(c) == repr(fresh) and ok_back else 1
    if kind == "expand":
        got = s2s(text)
        print("shorthand_to_stim:", repr(got), "wanted:", repr(r.get("want")))
        return 0 if got == r.get("want") else 1
    if kind == "tag":
        from tsim.core.parse import parse_parametric_tag as ppt
        try:
            got = ppt(text)
        except Exception as e:
            got = repr(e)
        print("parse_parametric_tag:", got, "wanted:", r.get("want"))
        want = r.get("want")
        return 0 if (isinstance(got, tuple) and got[0] == want[0] and {k: str(v) for k, v in got[1].items()} == want[1]) else 1
    if kind == "tag-grammar":
        from tsim.core.parse import parse_parametric_tag as ppt
        py, want = _py_ppt(ppt, text), ref_tag(text)
        print("parse_parametric_tag:", py, "reference:", want)
        return 0 if py == want else 1
    if kind == "sem":
        try:
            tsim.Circuit(text).to_matrix()
        except Exception as e:
            print("rejected:", repr(e))
            return 1
        return 0
    if kind == "ctor":
        try:
            ref_text, _ = ref_expand(text)
            ref = stim.Circuit(ref_text).flattened()
        except Exception as e:
            ref = None
            print("reference reading rejects the text:", repr(e))
        if eof_in_tag(s2s(text)):
            print("text ends inside a tag after expansion: not passed to stim")
            return 1
        try:
            got = tsim.Circuit(text)._stim_circ
        except Exception as e:
            print("now rejected loudly:", repr(e))
            return 0
        print("tsim.Circuit(text):", repr(str(got)))
        print("reference        :", None if ref is None else repr(str(ref)))
        return 0 if ref is not None and got == ref else 1
    if kind.startswith("roundtrip"):
        c = tsim.Circuit.from_stim_program(stim.Circuit(text))
        printed = str(c)
        print("str(c) =", repr(printed))
        if eof_in_tag(s2s(printed)):
            print("printed text ends inside a tag: not passed to stim")
            return 1
        try:
            c2 = tsim.Circuit(printed) if kind.endswith("str") else _eval_repr(tsim, repr(c), s2s)
        except Exception as e:
            print("now rejected loudly:", repr(e))
            return 0
        print("parsed back:", repr(str(c2._stim_circ)))
        return 0 if c2 == c else 1
    return 1
