"""C12 -- constructs tsim cannot simulate are rejected, never silently reinterpreted.

Vocabulary: every name of `stim.gate_data()` of the INSTALLED Stim (and every alias) x every target-kind pattern
Stim's parser accepts for it (plain qubit, !q, rec[-k], sweep[k], X/Y/Z q, !X/!Y/!Z q, combiner; every kind in every
position: complete up to two targets, reduced alphabet for three, pairs of pairs for two-qubit gates, products of up
to three Paulis) x minimal and maximal argument count.  The vocabulary is written to gen/Gen_stim_vocab.v with the
true role of every target and whether the arguments carry semantics (from gate_data flags and probes of Stim).

Tie A: translator `parse_facts` regenerates the facts about tsim's parser; Props/C12.v proves, by complete
enumeration of the vocabulary inside Coq, that `classify` (driven by those facts) rejects every row or uses every
target as what it means and forwards the arguments.
Tie B / search: for every row the implementation (`Circuit(probe).compile_sampler()` /
`compile_detector_sampler()`) must raise exactly when `classify` says Reject, and for accepted rows the exact
distribution of the REAL sampler (forced sampling) on informationally rich Clifford probes (Bell pairs on every
operand, synthesised inverse for unitaries, Bell / ZZ / XX / YY read-out) must equal the independent reference
(harness/exactdist.py + harness/c12_ref.py), which is itself cross-checked against Stim's own sampler.
A failing row is its own replay: key = the instruction text, e.g. `CX sweep[0] 1`.
"""
from __future__ import annotations

import itertools
import json
import math
import os
import time

import numpy as np
import stim

from harness import coqrun as cq
from harness.common import GEN, Ctx, report_broken_without_input, standard_model_phase, write_if_changed

MANIFEST = dict(
    text="For every gate name and alias of the installed Stim (81 names, Stim 1.16) crossed with every target-kind "
         "pattern its parser accepts (qubit, !q, rec, sweep, Pauli, !Pauli, combiner in every position; ~1600 rows) and "
         "minimal/maximal argument count, a Coq theorem (complete enumeration by vm_compute over facts regenerated from "
         "parse.py/instructions.py on every run) shows that tsim's parser either raises or uses every target as what it "
         "means in Stim and forwards the arguments; every row is also run through the real "
         "compile_sampler/compile_detector_sampler: raise/accept must match the model and the exact output distribution "
         "of accepted rows (forced sampling on Bell-pair probes) must equal an independent state-vector reference.",
    note="Trusted: the fail-closed ast translator translate/parse_facts.py (facts, not code: a change of shape it does "
         "not recognise breaks the tie and triggers the row-by-row search); the role table of Stim's target kinds "
         "(harness/props/c12.py, derived from gate_data flags, Stim's TableauSimulator accepting the row, and DEM probes "
         "for inert instructions); the reference simulator (cross-checked statistically against stim.compile_sampler on "
         "the same Clifford probes); forced sampling (harness/exactdist.py). Patterns longer than two targets use a "
         "reduced kind alphabet; the bound is the installed Stim's vocabulary. Whether an accepted gate denotes the right "
         "unitary/channel in general is C01/C02/C05; here it is observed on the probes only.",
    technique="finite-table proof (vm_compute + forallb_forall) over generated parser facts; differential exact distributions",
    design_ref="DESIGN.md 4.C12",
)

TRANSLATORS = ["parse_facts"]
COQ_FILES = ["Model/ParseTypes.v", "gen/Gen_parse_facts.v", "gen/Gen_stim_vocab.v", "Model/ParseClassify.v",
             "Proofs/ParseClassifyProofs.v", "Props/C12.v"]
IMPORTS = ("From Coq Require Import String List Bool. Import ListNotations.\n"
           "Require Import TV.Model.ParseTypes TV.gen.Gen_parse_facts TV.gen.Gen_stim_vocab TV.Model.ParseClassify.\n"
           "Open Scope string_scope.\n")

KINDS = ["Q", "NQ", "REC", "SWEEP", "PX", "PY", "PZ", "NPX", "NPY", "NPZ", "COMB"]
REDUCED = ["Q", "NQ", "REC", "SWEEP", "PX", "NPY", "COMB"]
COQ_KIND = {k: "K" + k for k in KINDS}
PAULI_KINDS = {"PX": "X", "PY": "Y", "PZ": "Z", "NPX": "X", "NPY": "Y", "NPZ": "Z"}
TOL = 1e-6


# =====================================================================================================
# 1. the vocabulary of the installed Stim
# =====================================================================================================

def target_text(name: str, kind: str, i: int) -> str:
    if name == "MPAD" and kind == "Q":
        return str((i + 1) % 2)
    return {"Q": f"{i}", "NQ": f"!{i}", "REC": f"rec[-{i + 1}]", "SWEEP": f"sweep[{i}]", "PX": f"X{i}", "PY": f"Y{i}",
            "PZ": f"Z{i}", "NPX": f"!X{i}", "NPY": f"!Y{i}", "NPZ": f"!Z{i}", "COMB": "*"}[kind]


def arg_values(canon: str, n: int) -> list[float]:
    if n == 0:
        return []
    if canon == "OBSERVABLE_INCLUDE":
        return [1.0]
    if canon in ("DETECTOR", "QUBIT_COORDS", "SHIFT_COORDS"):
        return [float(i) for i in range(n)]
    if canon == "PAULI_CHANNEL_2":
        return [(i + 1) / 256 for i in range(n)]
    if canon == "PAULI_CHANNEL_1":
        return [1 / 8, 1 / 16, 1 / 32][:n]
    if canon == "HERALDED_PAULI_CHANNEL_1":
        return [1 / 16, 1 / 8, 1 / 32, 1 / 64][:n]
    if canon in ("E", "ELSE_CORRELATED_ERROR"):
        return [0.25]
    if n == 1:
        return [0.125]
    return [1 / 1024] * n


def fmt_args(vals: list[float], short=False) -> str:
    if not vals:
        return ""
    f = lambda v: str(int(v)) if float(v).is_integer() else repr(float(v))
    if short and len(vals) > 4:
        return "(" + ",".join(f(v) for v in vals[:2]) + f",..x{len(vals)})"
    return "(" + ",".join(f(v) for v in vals) + ")"


def targets_text(name: str, pat: tuple[str, ...]) -> str:
    out = ""
    for i, k in enumerate(pat):
        t = target_text(name, k, i)
        if k == "COMB":
            out = out.rstrip(" ") + "*"
        else:
            out += t + " "
    return out.strip()


class Row:
    __slots__ = ("name", "canon", "pat", "nargs", "roles", "args_sem", "valid", "block", "line", "key", "gd")

    def __init__(self, name, canon, pat, nargs, block=False):
        self.name, self.canon, self.pat, self.nargs, self.block = name, canon, tuple(pat), nargs, block
        vals = arg_values(canon, nargs)
        tt = targets_text(canon, self.pat)
        self.line = (name + fmt_args(vals) + " " + tt).strip()
        # the kind pattern is part of the key: replay file names keep only [A-Za-z0-9_.-], which would merge
        # `MRX 0` / `MRX !0` and `MPP X0*Y1` / `MPP X0 Y1`
        self.key = (name + fmt_args(vals, short=True) + " " + tt).strip() + (" [" + ".".join(self.pat) + "]" if self.pat else "")
        self.gd = stim.gate_data(canon)

    def coq(self) -> str:
        b = lambda x: "true" if x else "false"
        return (f'mkRow "{self.name}" "{self.canon}" [{"; ".join(COQ_KIND[k] for k in self.pat)}] {self.nargs} '
                f'[{"; ".join(self.roles)}] {b(self.args_sem)} {b(self.valid)} {b(self.block)}')


def stim_accepts(text: str) -> bool:
    try:
        stim.Circuit(text)
        return True
    except Exception:
        return False


def kind_attrs() -> dict[str, list[str]]:
    """predicates of stim.GateTarget per kind, read off the installed Stim"""
    c = stim.Circuit("M 0 !1\nCX rec[-1] 2 sweep[3] 4\nMPP X5*Y6 Z7 !X8 !Y9 !Z10")
    ts = [t for ins in c for t in ins.targets_copy()]
    pick = {"Q": ts[0], "NQ": ts[1], "REC": ts[2], "SWEEP": ts[4], "PX": ts[6], "COMB": ts[7], "PY": ts[8], "PZ": ts[9],
            "NPX": ts[10], "NPY": ts[11], "NPZ": ts[12]}
    names = {"is_qubit_target": "AQubit", "is_inverted_result_target": "AInverted", "is_measurement_record_target": "ARecord",
             "is_sweep_bit_target": "ASweep", "is_combiner": "ACombiner", "is_x_target": "APX", "is_y_target": "APY", "is_z_target": "APZ"}
    return {k: [a for attr, a in names.items() if getattr(t, attr)] for k, t in pick.items()}


def inert_names() -> set[str]:
    """instructions without any effect on a simulation: pure annotations by their flags, and noise-flagged names
    whose detector error model is empty in a Z-basis and an X-basis probe (I_ERROR, II_ERROR)"""
    out = set()
    for n, g in stim.gate_data().items():
        if n == "REPEAT":
            continue
        if not (g.is_unitary or g.is_noisy_gate or g.produces_measurements or g.is_reset or g.takes_measurement_record_targets
                or g.takes_pauli_targets):
            out.add(n)
        elif g.is_noisy_gate and not g.produces_measurements and not g.takes_pauli_targets:
            r = g.num_parens_arguments_range
            ins = n + fmt_args(arg_values(n, max(r.start, 1) if r.stop > 1 else 0)) + " 0 1"
            try:
                empty = True
                for prep, meas in (("R", "M"), ("RX", "MX")):
                    d = stim.Circuit(f"{prep} 0 1\n{ins}\n{meas} 0 1\nDETECTOR rec[-1]\nDETECTOR rec[-2]").detector_error_model()
                    empty = empty and all(x.type != "error" for x in d)
                if empty:
                    out.add(n)
            except Exception:
                pass
    return out


def args_semantic(canon: str, gd, inert: set[str]) -> bool:
    if canon in inert:
        return False
    if gd.is_noisy_gate or gd.produces_measurements:
        return True
    if gd.takes_measurement_record_targets and not gd.is_two_qubit_gate and gd.num_parens_arguments_range.stop > 1:
        # annotation: does the argument change what Stim computes?  (observable index: yes; detector coordinates: no)
        try:
            a = stim.Circuit(f"M 0\n{canon}(0) rec[-1]")
            b = stim.Circuit(f"M 0\n{canon}(1) rec[-1]")
            return (a.num_observables, a.num_detectors) != (b.num_observables, b.num_detectors)
        except Exception:
            return True
    return False


def true_roles(row: Row, inert: set[str]) -> list[str]:
    gd = row.gd
    if not row.valid:
        return ["RInvalid"] * len(row.pat)
    out = []
    for k in row.pat:
        if row.canon in inert:
            out.append("RIgnored")
        elif k == "Q":
            out.append("RLiteralBit" if (gd.produces_measurements and not (gd.is_single_qubit_gate or gd.is_two_qubit_gate
                                                                          or gd.takes_pauli_targets)) else "RQubit")
        elif k == "NQ":
            out.append("RQubitInv")
        elif k == "REC":
            out.append("RRecCtl" if gd.is_two_qubit_gate else "RRecRef")
        elif k == "SWEEP":
            out.append("RSweepCtl")
        elif k in ("PX", "PY", "PZ"):
            p = "P" + PAULI_KINDS[k]
            out.append(f"(RPauliObs {p} false)" if gd.takes_measurement_record_targets else f"(RPauli {p})")
        elif k in ("NPX", "NPY", "NPZ"):
            p = "P" + PAULI_KINDS[k]
            if gd.takes_measurement_record_targets:
                out.append(f"(RPauliObs {p} true)")
            elif gd.is_noisy_gate and not gd.produces_measurements:
                out.append(f"(RPauli {p})")        # the sign of a Pauli ERROR is a global phase
            else:
                out.append(f"(RPauliInv {p})")
        elif k == "COMB":
            # a product of Pauli errors is the same set of Pauli errors
            out.append("RIgnored" if (gd.is_noisy_gate and not gd.produces_measurements) else "RCombiner")
    return out


def patterns_for(name: str, canon: str, nargs: int, alias: bool) -> list[tuple[str, ...]]:
    gd = stim.gate_data(canon)
    args = fmt_args(arg_values(canon, nargs))
    pre = "M 0 1 2 3 4\n"

    def ok(p):
        return stim_accepts(pre + name + args + " " + targets_text(canon, p))

    acc: list[tuple[str, ...]] = []
    for L in (0, 1, 2):
        acc += [p for p in itertools.product(KINDS, repeat=L) if ok(p)]
    if alias:
        return acc
    acc += [p for p in itertools.product(REDUCED, repeat=3) if ok(p)]
    two = [p for p in acc if len(p) == 2]
    if gd.is_two_qubit_gate and two:
        plain = two[0]
        cands = [plain + q for q in two] + [q + plain for q in two if q != plain]
        acc += [p for p in cands if ok(p)]
    if gd.takes_pauli_targets:
        P2, P3 = ["PX", "NPY"], ["PX", "NPY", "PZ"]
        c4 = [(a, "COMB", b, c) for a in P2 for b in P2 for c in P2] + [(a, b, "COMB", c) for a in P2 for b in P2 for c in P2]
        c5 = [(a, "COMB", b, "COMB", c) for a in P3 for b in P3 for c in P3]
        acc += [p for p in c4 + c5 if ok(p)]
    return acc


def stim_simulates(row: Row) -> bool:
    """does Stim's own simulator accept the instruction? (parser-accepted rows such as `CX 0 rec[-1]` are refused)"""
    try:
        c = stim.Circuit(probe_text(row, "zz" if not is_annotation(row) else "det"))
        stim.TableauSimulator().do(c)
        return True
    except Exception:
        return False


def build_vocab() -> list[Row]:
    inert = inert_names()
    rows: list[Row] = []
    for canon, gd in stim.gate_data().items():
        if canon == "REPEAT":
            r = Row("REPEAT", "REPEAT", (), 0, block=True)
            r.line = r.key = "REPEAT 3 { X 0 ; M 0 }"
            r.roles, r.args_sem, r.valid = [], False, True
            rows.append(r)
            continue
        rng = gd.num_parens_arguments_range
        for name in sorted(gd.aliases, key=lambda a: (a != canon, a)):
            for nargs in sorted({rng.start, rng.stop - 1}):
                for pat in patterns_for(name, canon, nargs, alias=(name != canon)):
                    r = Row(name, canon, pat, nargs)
                    r.valid = stim_simulates(r)
                    # the arguments of an instruction without targets cannot matter (except declaring an observable index)
                    r.args_sem = args_semantic(canon, gd, inert) and (bool(pat) or gd.takes_measurement_record_targets)
                    r.roles = true_roles(r, inert)
                    rows.append(r)
    return rows


def vocab_coq(rows: list[Row]) -> str:
    ka = kind_attrs()
    L = ["(* GENERATED at run time by /verif/harness/props/c12.py by probing the installed Stim "
         f"({stim.__version__}, {len(stim.gate_data())} names) -- do not edit *)",
         "From Coq Require Import String List Bool.", "Import ListNotations.", "Require Import TV.Model.ParseTypes.",
         "Open Scope string_scope.", "",
         "(* predicates of stim.GateTarget that hold for each kind of target *)",
         "Definition kind_attrs (k : tkind) : list tattr :=", "  match k with"]
    for k in KINDS:
        L.append(f"  | {COQ_KIND[k]} => [{'; '.join(ka[k])}]")
    L += ["  end.", "",
          "(* name as written, canonical name, target kinds, #arguments, true roles, arguments carry semantics,",
          "   Stim's simulator accepts it, block *)",
          "Definition stim_vocab : list vrow := ["]
    L.append(";\n".join("  " + r.coq() for r in rows))
    L += ["].", ""]
    return "\n".join(L)


# =====================================================================================================
# 2. probe circuits
# =====================================================================================================

def is_annotation(row: Row) -> bool:
    gd = row.gd
    return gd.takes_measurement_record_targets and not gd.is_two_qubit_gate


def settings_for(row: Row) -> list[str]:
    if row.block:
        return ["plain"]
    if is_annotation(row):
        return ["det"]
    gd = row.gd
    if gd.produces_measurements or gd.is_reset:
        return ["bell", "zz", "xx", "yy"]
    return ["bell"]


def synth_inverse(line: str) -> list[str] | None:
    """the inverse of a Clifford instruction as a list of single applications of elementary gates
    (stim.Tableau synthesis; shares no dispatch path with the row under test beyond H/S/CX themselves)"""
    try:
        c = stim.Circuit(line)
        t = stim.Tableau.from_circuit(c).inverse()
        out = []
        for ins in t.to_circuit(method="elimination"):
            g = stim.gate_data(ins.name)
            step = 2 if g.is_two_qubit_gate else 1
            ts = ins.targets_copy()
            for i in range(0, len(ts), step):
                out.append(ins.name + " " + " ".join(str(x.value) for x in ts[i:i + step]))
        return out
    except Exception:
        return None


def probe_text(row: Row, setting: str) -> str:
    """qubit layout: operand position i -> qubit i, its Bell partner -> n+i, record sources -> 2n+j, W -> last"""
    if row.block:
        return "H 0\nREPEAT 3 {\n    X 0\n    M 0\n}"
    gd = row.gd
    n = len(row.pat)
    live = [i for i, k in enumerate(row.pat) if k != "COMB" and not (row.canon == "MPAD")]
    if not live and setting != "det":
        n = max(n, 1)
        live = [n - 1]           # spectator pair: a probe always has something to read out
    L: list[str] = []
    # one record more than targets: lookback rec[-(i+1)] then never coincides with "record number i"
    nrec = n + 1 if gd.takes_measurement_record_targets else 0
    if nrec:
        src = [2 * n + j for j in range(nrec)]
        L.append("H " + " ".join(map(str, src)))
        L.append("M " + " ".join(map(str, src)))
    if setting == "det":
        for j in range(nrec):
            L.append(f"DETECTOR rec[-{j + 1}]")
        if row.canon == "OBSERVABLE_INCLUDE":
            L.append(f"OBSERVABLE_INCLUDE(0) rec[-{nrec}]")
    for i in live:
        L.append(f"H {i}")
        L.append(f"CX {i} {n + i}")
    W = 2 * n + nrec
    if row.canon == "ELSE_CORRELATED_ERROR":
        L.append(f"E(0.5) X{W}")
    L.append(row.line)
    if setting == "det":
        return "\n".join(L)
    if setting == "bell" and gd.is_unitary and row.pat and all(k == "Q" for k in row.pat):
        inv = synth_inverse(row.canon + " " + targets_text(row.canon, row.pat))
        if inv is not None:
            L += inv
    if setting == "bell":
        for i in live:
            L.append(f"CX {i} {n + i}")
            L.append(f"H {i}")
    if live:
        m = {"bell": "M", "zz": "M", "xx": "MX", "yy": "MY"}[setting]
        L.append(m + " " + " ".join(f"{i} {n + i}" for i in live))
    if row.canon == "ELSE_CORRELATED_ERROR":
        L.append(f"M {W}")
    return "\n".join(L)


# =====================================================================================================
# 3. running one probe (worker side)
# =====================================================================================================

def _run_probe(job):
    """(key, setting, text, det, n_stim) -> dict"""
    key, setting, text, det, n_stim, seed = job
    out = {"key": key, "setting": setting, "text": text}
    import tsim
    from harness.c12_ref import NoReference, ref_dist12
    from harness.exactdist import dist_diff, tsim_dist
    t0 = time.time()
    try:
        circ = tsim.Circuit(text)
        sampler = circ.compile_detector_sampler() if det else circ.compile_sampler()
        out["impl"] = "accept"
    except Exception as e:  # any exception while building the sampler is a (loud) rejection
        out["impl"] = "raise"
        out["error"] = f"{type(e).__name__}: {str(e)[:160]}"
        sampler = None
    try:
        ref = ref_dist12(text, det=det)
        out["ref"] = "ok"
    except NoReference as e:
        ref = None
        out["ref"] = "none"
        out["ref_why"] = str(e)[:160]
    except Exception as e:
        ref = None
        out["ref"] = "error"
        out["ref_why"] = f"{type(e).__name__}: {str(e)[:160]}"
    if sampler is not None:
        try:
            dist, info = tsim_dist(circ, det=det)
            out["num_outputs"] = info["num_outputs"]
            if info["bad_bernoulli_params"]:
                out["bad_p"] = str(info["bad_bernoulli_params"][:2])
            out["total"] = float(sum(dist.values()))
            if ref is not None:
                out["diff"] = float(dist_diff(dist, ref))
                if out["diff"] > TOL:
                    worst = max(set(dist) | set(ref), key=lambda k: abs(dist.get(k, 0.0) - ref.get(k, 0.0)))
                    out["worst"] = [list(worst), dist.get(worst, 0.0), ref.get(worst, 0.0)]
        except Exception as e:
            out["impl"] = "sample-error"
            out["error"] = f"{type(e).__name__}: {str(e)[:200]}"
    # the reference itself against Stim's own sampler (statistical, Clifford probes)
    if ref is not None and n_stim:
        try:
            c = stim.Circuit(text)
            if det:
                s = c.compile_detector_sampler(seed=seed).sample(n_stim, append_observables=True)
            else:
                s = c.compile_sampler(seed=seed).sample(n_stim)
            counts: dict = {}
            for r in np.asarray(s, dtype=np.uint8):
                k = tuple(int(x) for x in r)
                counts[k] = counts.get(k, 0) + 1
            # Chernoff bound on the binomial tail, per outcome: P(count as far from n*p as observed) <= exp(-mu*h(k/mu)),
            # h(x) = x ln x - x + 1 (valid for both tails); reported is the smallest log-bound over all outcomes
            worst = 0.0
            for k in set(counts) | set(ref):
                p = ref.get(k, 0.0)
                cnt = counts.get(k, 0)
                mu = n_stim * p
                if mu <= 0:
                    lb = -math.inf if cnt > 0 else 0.0
                else:
                    x = cnt / mu
                    lb = -mu * ((x * math.log(x) if x > 0 else 0.0) - x + 1)
                worst = min(worst, lb)
            out["stim_logp"] = worst
        except Exception as e:
            out["stim_z_error"] = f"{type(e).__name__}: {str(e)[:120]}"
    out["secs"] = round(time.time() - t0, 3)
    return out


def _pool_init():
    os.environ.setdefault("JAX_PLATFORMS", "cpu")
    import tsim  # noqa: F401  (pay the import once per worker)


def run_jobs(jobs, workers):
    if workers <= 1 or len(jobs) < 8:
        return [_run_probe(j) for j in jobs]
    import multiprocessing as mp
    ctx = mp.get_context("spawn")
    with ctx.Pool(workers, initializer=_pool_init) as pool:
        return list(pool.imap(_run_probe, jobs, chunksize=2))


# =====================================================================================================
# 4. the check
# =====================================================================================================

def select_quick(rows: list[Row]) -> list[int]:
    """every written name x every target kind x every argument count (shortest row containing it), every row with a
    classical (rec / sweep) target, every pattern of the annotations"""
    chosen: dict = {}
    for i, r in enumerate(rows):
        # every target kind is crossed with every argument count (a flag and an argument can interact: `M(p) !q`)
        tags = ([(r.name, "nargs", r.nargs)] if r.pat else []) + [(r.name, k, r.nargs) for k in set(r.pat)] + ([(r.name, "empty", r.nargs)] if not r.pat else [])
        for t in tags:
            if t not in chosen or len(rows[chosen[t]].pat) > len(r.pat):
                chosen[t] = i
    extra = [i for i, r in enumerate(rows) if len(r.pat) <= 2 and r.name == r.canon and
             (("REC" in r.pat or "SWEEP" in r.pat) or (is_annotation(r)))]
    return sorted(set(chosen.values()) | set(extra))


def model_verdicts(n: int):
    vals = cq.eval_terms("c12_rows", IMPORTS, ["map (fun r => (rejects r, ok r)) stim_vocab", "map classify stim_vocab"], timeout=600)
    rej_ok, cls = vals
    if len(rej_ok) != n or len(cls) != n:
        raise RuntimeError(f"model evaluated {len(rej_ok)} rows, harness has {n}")
    return [(bool(a), bool(b)) for a, b in rej_ok], cls


def dem_section(ctx: Ctx):
    """noise/dem.py rewrites OBSERVABLE_INCLUDE into DETECTOR; Pauli targets must not be turned into record lookbacks"""
    import tsim
    for tgt in ["rec[-1]", "Z0", "X1", "!Y2", "Z0 rec[-2]", "rec[-3] X2"]:
        line = f"OBSERVABLE_INCLUDE(0) {tgt}"
        text = f"R 0 1 2\nX_ERROR(0.125) 0\nX_ERROR(0.25) 1\nX_ERROR(0.0625) 2\nM 1 0 2\n{line}\nM 2 1 0\nDETECTOR rec[-1] rec[-4]"
        ctx.count(("dem", line), bucket="dem-observable-targets")
        try:
            want = stim.Circuit(text).detector_error_model(allow_gauge_detectors=True)
        except Exception:
            want = None
        try:
            got = tsim.Circuit(text).detector_error_model()
        except Exception:
            continue            # loud
        if want is None or not got.approx_equals(want, atol=1e-9):
            ctx.violation("dem " + line, f"Circuit.detector_error_model() silently misreads `{line}`: got `{str(got)}`, "
                          f"Stim gives `{str(want)}`", {"text": text, "tsim": str(got), "stim": str(want)})


REPEATED = [
    # (key, text, det): one instruction naming the same target several times (broadcast applies it that many times; a record named an
    # even number of times drops out of a parity)
    ("DETECTOR rec twice", "H 0\nM 0\nDETECTOR rec[-1] rec[-1]", True),
    ("DETECTOR rec twice among others", "X 0\nH 1\nM 0 1 2\nDETECTOR rec[-3] rec[-2] rec[-2] rec[-1]\nDETECTOR rec[-3] rec[-3] rec[-3]", True),
    ("OBSERVABLE_INCLUDE rec twice", "X 0\nH 1\nM 0 1\nOBSERVABLE_INCLUDE(0) rec[-2] rec[-1] rec[-1]\nOBSERVABLE_INCLUDE(1) rec[-2] rec[-2]", True),
    ("OBSERVABLE_INCLUDE rec twice over two instructions", "X 0\nM 0\nOBSERVABLE_INCLUDE(0) rec[-1]\nOBSERVABLE_INCLUDE(0) rec[-1]\nDETECTOR rec[-1]", True),
    ("H twice", "H 0 0\nM 0", False), ("S twice", "H 0\nS 0 0\nH 0\nM 0", False), ("SQRT_X three times", "SQRT_X 0 0 0\nS 0\nSQRT_X 0\nM 0", False),
    ("X_ERROR twice", "X_ERROR(0.25) 0 0\nM 0", False), ("M twice", "H 0\nM 0 0 !0", False), ("MR twice", "X 0\nMR 0 0\nM 0", False),
    ("CX pair twice", "H 0\nCX 0 1 0 1\nM 0 1", False), ("CX rec twice", "H 0\nM 0\nCX rec[-1] 1 rec[-1] 1 rec[-1] 2\nM 1 2", False),
    ("S_DAG three times", "H 0\nS_DAG 0 0 0\nH_YZ 0\nM 0", False), ("DEPOLARIZE1 twice", "DEPOLARIZE1(0.25) 0 0\nM 0", False),
    # ELSE_CORRELATED_ERROR keeps its meaning ("unless the most recent element fired") across other instructions
    ("ELSE after TICK", "E(0.5) X0\nTICK\nELSE_CORRELATED_ERROR(1) X1\nM 0 1", False),
    ("ELSE after gate", "E(0.5) X0\nH 2\nELSE_CORRELATED_ERROR(1) X1\nM 0 1", False),
    ("ELSE after QUBIT_COORDS and noise", "E(0.25) X0 X1\nQUBIT_COORDS(1, 2) 2\nX_ERROR(0.25) 2\nELSE_CORRELATED_ERROR(0.5) X1\nM 0 1 2", False),
    ("ELSE after measurement", "E(0.5) X0\nM 2\nELSE_CORRELATED_ERROR(1) X1\nELSE_CORRELATED_ERROR(1) X2\nM 0 1 2", False),
    ("ELSE after detector", "H 2\nM 2\nE(0.5) X0\nDETECTOR rec[-1]\nELSE_CORRELATED_ERROR(1) X1\nM 0 1\nDETECTOR rec[-1] rec[-2]", True),
]


def repeated_section(ctx: Ctx):
    """targets repeated inside one instruction: read as Stim reads them (every occurrence counts); chains with other instructions between their elements"""
    for key, text, det in REPEATED:
        res = _run_probe((key, "det" if det else "zz", text, det, 0, 0))
        ctx.count(("repeated", key), nontrivial=True, bucket="repeated-targets")
        replay = {"row": key, "instruction": key, "probes": {("det" if det else "zz"): text}}
        if res["impl"] == "raise":
            continue          # loud
        if res["impl"] == "sample-error":
            ctx.violation("repeated " + key, f"`{text}` compiles but sampling fails: {res.get('error')}", replay)
        elif res.get("ref") != "ok":
            ctx.broken.append(f"reference: no reference for the repeated-target probe `{key}`: {res.get('ref_why')}")
        elif res.get("diff", 0.0) > TOL:
            w = res.get("worst")
            what = ("an ELSE_CORRELATED_ERROR separated from the chain it belongs to by other instructions" if key.startswith("ELSE")
                    else "a target named several times in one instruction")
            ctx.violation("repeated " + key, f"{what} is not read as Stim reads it: `{text}` differs from "
                          f"Stim's semantics by {res['diff']:.4g} (outcome {w[0]}: tsim {w[1]:.6g}, reference {w[2]:.6g})", replay)


def run(ctx: Ctx) -> int:
    t0 = time.time()
    rows = build_vocab()
    GEN.mkdir(parents=True, exist_ok=True)
    write_if_changed(GEN / "Gen_stim_vocab.v", vocab_coq(rows))
    ctx.log(f"vocabulary of Stim {stim.__version__}: {len(rows)} rows, {len({r.name for r in rows})} written names "
            f"({len(stim.gate_data())} canonical), built in {time.time() - t0:.1f}s")
    ctx.cov["vocabulary_rows"] = len(rows)
    ctx.cov["stim_version"] = stim.__version__
    model_ok = standard_model_phase(ctx, TRANSLATORS, COQ_FILES, "Props.C12", "Props/C12.v")
    ctx.trusted += [
        "translator /verif/translate/parse_facts.py (Python ast -> facts about parse.py / instructions.py; fail-closed)",
        "role table of Stim's target kinds in harness/props/c12.py (gate_data flags + Stim TableauSimulator acceptance + DEM probes for inert names)",
        "reference simulator harness/exactdist.py + harness/c12_ref.py (Stim's documented semantics), cross-checked against stim.compile_sampler on the probes",
        "forced sampling through the real sampler (harness/exactdist.py::tsim_dist)",
        "patterns longer than two targets use the reduced alphabet Q,!Q,rec,sweep,X,!Y,* (pairs of pairs / products of <=3 Paulis)",
    ]
    model_usable = not any(b.startswith("translator:") or "ParseClassify.v" in b or "ParseTypes" in b or "Gen_" in b for b in ctx.broken)
    verdicts = cls = None
    if model_usable:
        try:
            verdicts, cls = model_verdicts(len(rows))
        except Exception as e:
            ctx.broken.append(f"model-eval: {str(e)[:300]}")
    # ---- which rows
    idx = select_quick(rows) if ctx.quick else list(range(len(rows)))
    if os.environ.get("C12_ONLY"):
        idx = [i for i, r in enumerate(rows) if os.environ["C12_ONLY"] in (r.key, r.line)]
    n_stim = 4000 if ctx.quick else 20000
    jobs = []
    for i in idx:
        r = rows[i]
        sets = settings_for(r)
        # Stim's detector sampler adds frame anticommutation for Pauli terms of an observable (no record parity): no cross-check
        ns = 0 if (is_annotation(r) and any(k in PAULI_KINDS for k in r.pat)) else n_stim
        for s in sets:
            jobs.append((r.key, s, probe_text(r, s), s == "det", ns, ctx.rng.getrandbits(31)))
    # most expensive first (forced sampling runs once per noise assignment): keeps the pool's tail short
    def cost(job):
        r = next(x for x in rows if x.key == job[0])
        g = r.gd
        if g.is_noisy_gate and not g.produces_measurements and not g.takes_pauli_targets:
            return (16 if g.is_two_qubit_gate else 4) ** (len(r.pat) // (2 if g.is_two_qubit_gate else 1))
        return 1
    key_cost = {}
    for j in jobs:
        if j[0] not in key_cost:
            key_cost[j[0]] = cost(j)
    jobs.sort(key=lambda j: -key_cost[j[0]])
    workers = int(os.environ.get("C12_WORKERS", "8"))
    ctx.log(f"{len(idx)} rows, {len(jobs)} probe circuits, {workers} workers")
    results = run_jobs(jobs, workers)
    by_key: dict[str, list[dict]] = {}
    for res in results:
        by_key.setdefault(res["key"], []).append(res)
    finish_rows(ctx, rows, idx, by_key, verdicts, cls)
    try:
        dem_section(ctx)
    except Exception as e:
        ctx.broken.append(f"dem-section: {type(e).__name__}: {e}")
    try:
        repeated_section(ctx)
    except Exception as e:
        ctx.broken.append(f"repeated-section: {type(e).__name__}: {e}")
    if ctx.broken:
        ctx.log("broken ties:", ctx.broken[:6])
        report_broken_without_input(ctx)
    return ctx.finish("C12_table / C12_every_row (Props/C12.v) + row-by-row correspondence",
                      "every row of the installed Stim's vocabulary is rejected or read as what it means",
                      assumptions=["the installed Stim's parser/gate_data define the vocabulary", "reference semantics as documented by Stim"])


def finish_rows(ctx: Ctx, rows, idx, by_key, verdicts, cls):
    n_acc = n_rej = 0
    slow = 0.0
    for i in idx:
        r = rows[i]
        res = by_key.get(r.key, [])
        if not res:
            continue
        impls = {x["impl"] for x in res}
        accept = "accept" in impls or "sample-error" in impls
        kinds = "+".join(sorted(set(r.pat))) or "none"
        ctx.count(r.key, nontrivial=bool(r.pat), bucket=("accept:" if accept else "reject:") + kinds)
        slow = max([slow] + [x.get("secs", 0.0) for x in res])
        if accept:
            n_acc += 1
        else:
            n_rej += 1
        replay = {"row": r.key, "instruction": r.line, "kinds": list(r.pat), "nargs": r.nargs,
                  "probes": {x["setting"]: x["text"] for x in res}}
        if len(impls - {"sample-error"}) > 1:
            ctx.violation(r.key, f"`{r.line}` is accepted in one probe and rejected in another: "
                          + "; ".join(f"{x['setting']}: {x['impl']} {x.get('error', '')}" for x in res), replay)
            continue
        # ---- implementation vs reference
        if accept:
            if not r.valid:
                ctx.violation(r.key, f"`{r.line}` compiles although Stim's own simulators refuse it (no semantics to agree with)", replay)
            for x in res:
                if x["impl"] == "sample-error":
                    ctx.violation(r.key, f"`{r.line}` compiles but sampling its probe fails: {x['error']}", replay)
                elif x.get("ref") == "none" and r.valid:
                    ctx.broken.append(f"reference: no reference semantics for accepted row `{r.key}` ({x.get('ref_why')})")
                elif x.get("ref") == "error":
                    ctx.broken.append(f"reference: error on `{r.key}`: {x.get('ref_why')}")
                elif "diff" in x and x["diff"] > TOL:
                    w = x.get("worst")
                    ctx.violation(r.key, f"`{r.line}` is accepted but its distribution differs from Stim's semantics by {x['diff']:.4g} "
                                  f"(probe `{x['setting']}`; outcome {w[0]}: tsim {w[1]:.6g}, reference {w[2]:.6g})", replay)
                if abs(x.get("total", 1.0) - 1.0) > 1e-5:
                    ctx.violation(r.key, f"`{r.line}`: sampler probabilities sum to {x['total']}", replay)
        for x in res:
            if x.get("stim_logp", 0.0) < -32.0:
                ctx.broken.append(f"reference: disagrees with stim.compile_sampler on `{r.key}` probe {x['setting']} (log tail bound {x['stim_logp']:.1f})")
            if "stim_z_error" in x:
                ctx.broken.append(f"reference: stim.compile_sampler failed on `{r.key}` probe {x['setting']}: {x['stim_z_error']}")
        # ---- model vs implementation
        if verdicts is not None:
            m_rej, m_ok = verdicts[i]
            if m_rej and accept:
                ctx.broken.append(f"correspondence: model rejects `{r.key}`, implementation accepts it")
            if (not m_rej) and not accept:
                ctx.broken.append(f"correspondence: model accepts `{r.key}` as {cls[i]}, implementation raises {res[0].get('error')}")
            if (not m_ok) and accept and r.valid and all(x.get("diff", 1.0) <= TOL for x in res):
                ctx.broken.append(f"correspondence: model reads `{r.key}` as {cls[i]} (true roles {r.roles}) but the probes agree with the reference")
        if len(ctx.samples) < 6 and accept and r.pat:
            ctx.sample({"row": r.key, "probe": res[0]["text"], "max_abs_diff": max((x.get("diff", 0.0) for x in res), default=None)})
    ctx.cov["rows_checked"] = len(idx)
    ctx.cov["rows_accepted_by_tsim"] = n_acc
    ctx.cov["rows_rejected_by_tsim"] = n_rej
    slowest = sorted(((x.get("secs", 0.0), x["key"], x["setting"]) for v in by_key.values() for x in v), reverse=True)[:3]
    ctx.log(f"rows: {n_acc} accepted (distribution compared), {n_rej} rejected; slowest probes {slowest}")
    ctx.cov["stim_crosscheck_probes"] = sum(1 for v in by_key.values() for x in v if "stim_logp" in x)


def replay(ctx: Ctx, obj) -> int:
    rp = obj.get("replay") or {}
    probes = rp.get("probes") or {}
    if not probes:
        print(json.dumps(obj, indent=1))
        return 1
    bad = 0
    for setting, text in probes.items():
        res = _run_probe((rp.get("row"), setting, text, setting == "det", 0, 0))
        print(json.dumps(res, indent=1, default=str))
        if res["impl"] != "raise" and (res.get("ref") != "ok" or res.get("diff", 0.0) > TOL):
            bad = 1
    print("REPRODUCED" if bad else "not reproduced")
    return bad
