"""C17 -- Circuit behaves like a flattened stim.Circuit under every container operation.

Tie A: translator `circuit_effects` recompiles every method of class Circuit into an effect summary; the
       theorems of Props/C17.v (flatness, refinement of the stim-only reference, no aliasing, observers
       leave the heap unchanged; induction over operation histories) are re-checked against it.
Tie B: random operation histories are run (1) on tsim.Circuit objects, (2) on pure stim.Circuit objects
       with value semantics (the reference), (3) through the Coq model (t_run / reference run, vm_compute).
       After every operation every variable is compared: tsim's wrapped circuit vs the flattened reference
       (both through Stim's own `flattened()`, which merges everything that can be merged), the five
       counters, absence of REPEAT blocks, pairwise distinct wrapped objects (id), and -- at the end of
       the history -- the exact instruction lists predicted by the model.  Observers are interleaved and
       must leave `str` and the object identity of every variable unchanged.
Search: the differential (1) vs (2) is independent of the model; a disagreement is shrunk to a short
       history and written as a replay.
"""
from __future__ import annotations

import json

import stim

from harness import coqrun as cq
from harness.common import Ctx, report_broken_without_input, standard_model_phase

MANIFEST = dict(
    text=("Machine-checked proof (Coq 8.16.1) over a heap model of tsim.circuit.Circuit: every method of the class is "
          "RECOMPILED on every run by a fail-closed Python-ast translator into an effect summary (which Stim call, "
          ".flattened()/.copy() interposed, in-place mutation or re-assignment of self._stim_circ, what is returned), "
          "and for ALL operation histories (text ctor, from_stim_program, append_from_stim_program_text, +, +=, *, *=, "
          "rmul, slicing, pop, copy, without_noise, without_annotations, stim_circuit, user mutation of stim operands; "
          "tsim and stim operands with arbitrary REPEAT nesting) it is proved by induction that (C17_flat) no wrapped "
          "circuit ever contains a REPEAT block, (C17_alias) no two handles / user-held stim objects ever share a heap "
          "object, (C17_observers) read-only methods leave the heap unchanged, and (C17_refine_partial) the wrapped "
          "circuit equals fuse(flatten(reference)) where the reference applies the same operations to plain circuit "
          "values, hence equal measurement/detector/observable/qubit/tick counts. The full refinement statement is "
          "REFUTED in the model (C17_refine_refuted): flattening on entry drops SHIFT_COORDS, so coordinates of "
          "later-appended DETECTOR/QUBIT_COORDS differ from Stim's. Correspondence: random histories (<=12 ops quick) "
          "run on tsim, on pure Stim objects and through the Coq model, compared after every operation."),
    note=("Trusted: Coq kernel + vm_compute; translator translate/circuit_effects.py; Spec/StimCircuit.v as the model of "
          "Stim's container operations (validated against the installed Stim 1.16 on every run: gate tables, merging, "
          "flattened(), +=, *, slicing, pop, without_noise, counters); external callees that receive the live wrapped "
          "circuit (parse_stim_circuit, render_svg, get_detector_error_model, samplers) are assumed read-only and "
          "checked dynamically (str/id before and after). Argument errors raised by Stim before any change are "
          "modelled as no-ops. Index-based operations (pop, slicing) are specified on a REPEAT-free representative "
          "of the reference circuit (it is only determined up to merging)."),
    technique="Coq proof (induction over histories, abstract interpretation of effect summaries) + ast translator + 3-way differential",
    design_ref="DESIGN.md 4.C17",
)

TRANSLATORS = ["circuit_effects"]
COQ_FILES = ["Spec/StimCircuit.v", "Model/CircuitEffects.v", "gen/Gen_circuit_effects.v", "Model/CircuitOps.v",
             "Proofs/StimCircuitProofs.v", "Proofs/CircuitOpsProofs.v", "Props/C17.v"]
IMPORTS = ("From Coq Require Import ZArith List String. Import ListNotations.\n"
           "Require Import TV.Spec.StimCircuit TV.Model.CircuitEffects TV.gen.Gen_circuit_effects TV.Model.CircuitOps.\n"
           "Open Scope string_scope. Open Scope list_scope. Open Scope Z_scope.\n")

ARG_UNIT = 1024
SHIFT_KEY = "flatten-on-entry-drops-SHIFT_COORDS"

# ---------------------------------------------------------------------------------------------------
# encoding of stim circuits (python tuples <-> Coq literals)
# ---------------------------------------------------------------------------------------------------

class Tags:
    def __init__(self):
        self.ids = {"": 0}

    def id(self, t: str) -> int:
        if t not in self.ids:
            self.ids[t] = len(self.ids)
        return self.ids[t]


def enc_target(t: stim.GateTarget) -> int:
    if t.is_measurement_record_target:
        return -2 * (-t.value)            # rec[-k] -> -2k
    if t.is_sweep_bit_target:
        return -(2 * t.value + 1)
    q = t.value
    pauli = 1 if t.is_x_target else 2 if t.is_y_target else 3 if t.is_z_target else 0
    return q * 16 + (1 if t.is_inverted_result_target else 0) + 2 * pauli


def enc_arg(a: float, strict: bool = True):
    v = a * ARG_UNIT
    if v != int(v):
        if strict:
            raise ValueError(f"argument {a} is not a multiple of 1/{ARG_UNIT}")
        return ("not-a-multiple", repr(a))      # every argument the histories write is one: the implementation has changed the value
    return int(v)


def enc_instr(ins: stim.CircuitInstruction, tags: Tags, strict: bool = True):
    groups = tuple(tuple(enc_target(t) for t in g if not t.is_combiner) for g in ins.target_groups())
    return (ins.name, tuple(enc_arg(a, strict) for a in ins.gate_args_copy()), tags.id(ins.tag), groups)


def enc_circ(c: stim.Circuit, tags: Tags, strict: bool = True):
    out = []
    for x in c:
        if isinstance(x, stim.CircuitRepeatBlock):
            out.append(("REP", x.repeat_count, enc_circ(x.body_copy(), tags, strict)))
        else:
            out.append(enc_instr(x, tags, strict))
    return tuple(out)


def coq_instr(i) -> str:
    name, args, tag, groups = i
    return (f'(mkI "{name}" {cq.zlist(args)} {cq.z(tag)} ['
            + "; ".join(cq.zlist(g) for g in groups) + "])")


def coq_circ(c) -> str:
    parts = []
    for x in c:
        if x[0] == "REP":
            parts.append(f"Rep {x[1]}%nat {coq_circ(x[2])}")
        else:
            parts.append("It " + coq_instr(x))
    return "[" + "; ".join(parts) + "]"


def dec_model_flat(v):
    """Coq `show_flat` output -> tuple of instr tuples, or None when the model circuit is not flat"""
    if v is None:
        return None
    lst = v[1]
    out = []
    for it in lst:
        name, args, tag, groups = it
        out.append((name, tuple(args), tag, tuple(tuple(g) for g in groups)))
    return tuple(out)


def dec_instrs(lst):
    return tuple((n, tuple(a), t, tuple(tuple(g) for g in gs)) for n, a, t, gs in lst)


def has_repeat(c: stim.Circuit) -> bool:
    return any(isinstance(x, stim.CircuitRepeatBlock) for x in c)


def counts_of(c) -> tuple:
    return (c.num_measurements, c.num_detectors, c.num_observables, c.num_qubits, c.num_ticks)


def strip_coords(flat_enc):
    """erase what SHIFT_COORDS influences: coordinate arguments of DETECTOR / QUBIT_COORDS"""
    return tuple((n, () if n in ("DETECTOR", "QUBIT_COORDS") else a, t, g) for n, a, t, g in flat_enc)


# ---------------------------------------------------------------------------------------------------
# generators
# ---------------------------------------------------------------------------------------------------
GATES1 = ["H", "X", "Y", "Z", "S", "S_DAG", "SQRT_X", "I", "T", "T_DAG", "R", "RX", "C_XYZ"]
GATES2 = ["CX", "CZ", "SWAP", "ISWAP", "CY", "XCZ"]
MEAS1 = ["M", "MX", "MY", "MR", "MRX", "MPAD"]
NOISE1 = ["X_ERROR", "Z_ERROR", "DEPOLARIZE1", "Y_ERROR"]
PROBS = ["0.125", "0.25", "0.5", "0.0625", "0.375", "0.0009765625", "0.1240234375"]   # the last two need more than 6 significant digits
TAGS = ["", "", "", "", "[a]", "[b2]"]


def gen_lines(rng, n, nq, depth=0, allow_repeat=True, allow_shift=True, kind="mixed", state=None):
    """random program text (tsim shorthand allowed); `state['m']` counts measurements so look-backs are valid"""
    st = state if state is not None else {"m": 0}
    lines = []
    ind = "    " * depth
    for _ in range(n):
        r = rng.random()
        tag = rng.choice(TAGS)
        q = lambda: rng.randrange(nq)
        if kind == "unitary":
            if r < 0.7:
                g = rng.choice(["H", "X", "S", "T", "SQRT_X", "T_DAG", "Z"])
                lines.append(f"{ind}{g} {q()}")
            elif r < 0.85 and nq >= 2:
                a, b = rng.sample(range(nq), 2)
                lines.append(f"{ind}{rng.choice(['CX', 'CZ'])} {a} {b}")
            elif r < 0.93:
                lines.append(f"{ind}R_Z({rng.choice(['0.25', '0.5', '-0.125'])}) {q()}")
            elif allow_repeat and depth < 1:
                lines.append(f"{ind}REPEAT {rng.randrange(1, 4)} {{")
                lines += gen_lines(rng, rng.randrange(1, 3), nq, depth + 1, False, False, kind, st)
                lines.append(ind + "}")
            continue
        if r < 0.30:
            g = rng.choice(GATES1)
            k = rng.choice([1, 1, 1, 2, 3])
            t = "" if g in ("T", "T_DAG") else tag
            lines.append(f"{ind}{g}{t} " + " ".join(str(q()) for _ in range(k)))
        elif r < 0.40 and nq >= 2:
            a, b = rng.sample(range(nq), 2)
            lines.append(f"{ind}{rng.choice(GATES2)}{tag} {a} {b}")
        elif r < 0.52:
            g = rng.choice(MEAS1)
            k = rng.choice([1, 1, 2])
            if g == "MPAD":
                lines.append(f"{ind}MPAD{tag} " + " ".join(rng.choice("01") for _ in range(k)))
            else:
                arg = f"({rng.choice(PROBS)})" if rng.random() < 0.25 else ""
                inv = lambda: "!" if rng.random() < 0.15 else ""
                lines.append(f"{ind}{g}{tag}{arg} " + " ".join(inv() + str(q()) for _ in range(k)))
            st["m"] += k
        elif r < 0.57 and nq >= 2:
            a, b = rng.sample(range(nq), 2)
            lines.append(f"{ind}{rng.choice(['MXX', 'MZZ', 'MYY'])}{tag} {a} {b}")
            st["m"] += 1
        elif r < 0.62:
            prods = []
            for _j in range(rng.choice([1, 1, 2])):
                qs = rng.sample(range(nq), rng.randrange(1, min(3, nq) + 1))
                prods.append("*".join(rng.choice("XYZ") + str(x) for x in qs))
            lines.append(f"{ind}MPP{tag} " + " ".join(prods))
            st["m"] += len(prods)
        elif r < 0.70:
            g = rng.choice(NOISE1)
            lines.append(f"{ind}{g}{tag}({rng.choice(PROBS)}) " + " ".join(str(q()) for _ in range(rng.choice([1, 2]))))
        elif r < 0.73 and nq >= 2:
            a, b = rng.sample(range(nq), 2)
            lines.append(f"{ind}DEPOLARIZE2({rng.choice(PROBS)}) {a} {b}")
        elif r < 0.75:
            lines.append(f"{ind}{rng.choice(['E', 'ELSE_CORRELATED_ERROR'])}({rng.choice(PROBS)}) " + rng.choice("XYZ") + str(q()))
        elif r < 0.77:
            lines.append(f"{ind}HERALDED_ERASE{tag}({rng.choice(PROBS)}) {q()}")
            st["m"] += 1
        elif r < 0.82:
            lines.append(f"{ind}TICK{tag}")
        elif r < 0.88 and st["m"] > 0:
            k = rng.randrange(1, min(3, st["m"]) + 1)
            recs = " ".join(f"rec[-{rng.randrange(1, st['m'] + 1)}]" for _ in range(k))
            coords = rng.choice(["", "", "(1, 2)", "(0)", "(3, 0, 1)"])
            lines.append(f"{ind}DETECTOR{tag}{coords} {recs}")
        elif r < 0.92 and st["m"] > 0:
            tg = f"rec[-{rng.randrange(1, st['m'] + 1)}]" if rng.random() < 0.85 else rng.choice("XYZ") + str(q())
            lines.append(f"{ind}OBSERVABLE_INCLUDE({rng.randrange(0, 3)}) {tg}")
        elif r < 0.94:
            lines.append(f"{ind}QUBIT_COORDS({rng.randrange(0, 4)}, {rng.randrange(0, 4)}) {q()}")
        elif r < 0.96 and allow_shift:
            lines.append(f"{ind}SHIFT_COORDS{tag}({rng.choice(['0, 0, 1', '1', '2, 0.5'])})")
        elif r < 0.97:
            lines.append(f"{ind}{rng.choice(['H', 'X', 'M'])}")           # an instruction with no targets
        elif allow_repeat and depth < 2:
            lines.append(f"{ind}REPEAT {rng.randrange(1, 4)} {{")
            m0 = st["m"]
            body = gen_lines(rng, rng.randrange(0 if depth else 1, 4), nq, depth + 1, allow_repeat, allow_shift, kind, st)
            lines += body
            lines.append(ind + "}")
            _ = m0
        else:
            lines.append(f"{ind}H {q()}")
    return lines


def gen_text(rng, allow_repeat=True, allow_shift=True, kind="mixed", maxn=5):
    nq = rng.randrange(1, 4) if kind == "unitary" else rng.randrange(1, 5)
    return "\n".join(gen_lines(rng, rng.randrange(0, maxn + 1), nq, 0, allow_repeat, allow_shift, kind))


OBSERVERS = ["str", "repr", "len", "eq", "num", "timeline-svg", "to_matrix", "get_graph", "tcount", "dem",
             "compile_sampler", "compile_detector_sampler", "getitem", "approx_equals", "m2d", "sampling_graph", "inverse"]


def stim_text(text: str) -> str:
    """program text for a stim.Circuit operand: the shorthand expanded (any valid Stim text will do)"""
    from tsim.utils.program_text import shorthand_to_stim
    return shorthand_to_stim(text)


def gen_history(rng, length, profile):
    """profile: dict(allow_repeat, allow_shift, kind, heavy_observers)"""
    h = []
    nt = ns = 0
    txt = lambda **kw: gen_text(rng, profile["allow_repeat"], profile["allow_shift"], profile["kind"], **kw)
    while len(h) < length:
        r = rng.random()
        if nt == 0 or (r < 0.10 and nt < 5):
            if ns > 0 and rng.random() < 0.4:
                h.append({"op": "from_stim", "s": rng.randrange(ns)})
            else:
                h.append({"op": "text", "text": txt()})
            nt += 1
            continue
        v = rng.randrange(nt)
        if r < 0.20 and ns < 4:
            h.append({"op": "stim_new", "text": stim_text(txt())})
            ns += 1
        elif r < 0.28:
            h.append({"op": "append_text", "v": v, "text": txt(maxn=3)})
        elif r < 0.40:
            o = ["S", rng.randrange(ns)] if (ns > 0 and rng.random() < 0.6) else ["T", rng.randrange(nt)]
            op = "add" if (rng.random() < 0.5 and nt < 6) else "iadd"
            h.append({"op": op, "v": v, "o": o})
            nt += op == "add"
        elif r < 0.50:
            op = rng.choice(["mul", "rmul", "imul"])
            if op != "imul" and nt >= 6:
                op = "imul"
            n = rng.choice([0, 1, 2, 2, 3, 3, -1] if rng.random() < 0.3 else [2, 3])
            h.append({"op": op, "v": v, "n": n})
            nt += (op != "imul" and n >= 0)
        elif r < 0.60 and nt < 6:
            c = lambda: rng.choice([None, None, 0, 1, 2, 3, 5, -1, -2, -4, 9])
            step = rng.choice([1, 1, 1, 2, -1, -2, 3, 0] if rng.random() < 0.5 else [1])
            h.append({"op": "slice", "v": v, "start": c(), "stop": c(), "step": step})
            nt += step != 0
        elif r < 0.70:
            h.append({"op": "pop", "v": v, "i": rng.choice([-1, -1, 0, 1, 2, -2, 4, -5, 7])})
        elif r < 0.75 and nt < 6:
            h.append({"op": "copy", "v": v})
            nt += 1
        elif r < 0.80 and nt < 6:
            h.append({"op": "without_noise", "v": v})
            nt += 1
        elif r < 0.85 and nt < 6:
            h.append({"op": "without_annotations", "v": v})
            nt += 1
        elif r < 0.89 and ns < 4:
            h.append({"op": "stim_circuit", "v": v})
            ns += 1
        elif r < 0.93 and ns > 0:
            h.append({"op": "stim_iadd", "s": rng.randrange(ns), "text": stim_text(txt(maxn=2))})
        else:
            heavy = profile.get("heavy_observers", False)
            pool = OBSERVERS if heavy else [o for o in OBSERVERS if o not in ("compile_sampler", "compile_detector_sampler")]
            h.append({"op": "observe", "v": v, "what": rng.choice(pool)})
    return h


# ---------------------------------------------------------------------------------------------------
# running a history on tsim and on pure Stim
# ---------------------------------------------------------------------------------------------------

def ref_without_annotations(c: stim.Circuit) -> stim.Circuit:
    out = stim.Circuit()
    for x in c:
        if isinstance(x, stim.CircuitRepeatBlock):
            out.append(stim.CircuitRepeatBlock(x.repeat_count, ref_without_annotations(x.body_copy()), tag=x.tag))
        elif x.name in ("DETECTOR", "OBSERVABLE_INCLUDE"):
            continue
        else:
            out.append(x)
    return out


class Mismatch(Exception):
    def __init__(self, kind, step, detail):
        super().__init__(f"{kind} at step {step}: {detail}")
        self.kind, self.step, self.detail = kind, step, detail


def observe(c, what, rng_seed=0):
    """call one read-only method; exceptions of the method itself are fine (returns their class name)"""
    import tsim
    try:
        if what == "str":
            return str(c)
        if what == "repr":
            return repr(c)
        if what == "len":
            return len(c)
        if what == "eq":
            return c == c.copy()
        if what == "num":
            return (c.num_measurements, c.num_detectors, c.num_observables, c.num_qubits, c.num_ticks)
        if what == "timeline-svg":
            return len(str(c.diagram("timeline-svg")))
        if what == "to_matrix":
            if c.num_qubits <= 3 and c.num_measurements == 0 and len(c) <= 12:
                return c.to_matrix().shape
            return None
        if what == "get_graph":
            return c.get_graph().num_vertices() if len(c) <= 30 else None
        if what == "tcount":
            return c.tcount() if len(c) <= 30 else None
        if what == "sampling_graph":
            return c.get_sampling_graph().num_vertices() if len(c) <= 20 else None
        if what == "dem":
            return str(c.detector_error_model(allow_gauge_detectors=True))
        if what == "compile_sampler":
            if c.num_qubits <= 3 and len(c) <= 8 and c.num_measurements <= 3:
                return c.compile_sampler(seed=rng_seed).sample(2).shape
            return None
        if what == "compile_detector_sampler":
            if c.num_qubits <= 3 and len(c) <= 8 and c.num_measurements <= 3:
                return c.compile_detector_sampler(seed=rng_seed).sample(2).shape
            return None
        if what == "getitem":
            return str(c[0]) if len(c) else None
        if what == "approx_equals":
            return c.approx_equals(c.copy(), atol=0.01)
        if what == "m2d":
            c.compile_m2d_converter(skip_reference_sample=True)
            return True
        if what == "inverse":
            return str(c.inverse())
    except Exception as e:  # the observer itself may reject the circuit; it must still not modify it
        return "raised:" + type(e).__name__
    raise ValueError(what)


def run_history(h, check_every_step=True):
    """returns (tvars, svars, rt, rs, per_step_lens); raises Mismatch on the first disagreement between the
    tsim objects and the pure-Stim reference"""
    from tsim import Circuit
    from tsim.utils.program_text import shorthand_to_stim
    T, S = [], []            # tsim handles, user's stim objects
    RT, RS = [], []          # reference values (pure Stim, value semantics)
    lens = []

    def outcome(f):
        try:
            return ("ok", f())
        except Exception as e:  # noqa
            return ("raised", type(e).__name__)

    for step, o in enumerate(h):
        k = o["op"]
        if k == "text":
            T.append(Circuit(o["text"]))
            RT.append(stim.Circuit(shorthand_to_stim(o["text"])))
        elif k == "stim_new":
            c = stim.Circuit(o["text"])
            S.append(c)
            RS.append(c.copy())
        elif k == "from_stim":
            T.append(Circuit.from_stim_program(S[o["s"]]))
            RT.append(RS[o["s"]].copy())
        elif k == "append_text":
            T[o["v"]].append_from_stim_program_text(o["text"])
            r = RT[o["v"]].copy()
            r.append_from_stim_program_text(shorthand_to_stim(o["text"]))
            RT[o["v"]] = r
        elif k in ("add", "iadd"):
            kind, j = o["o"]
            operand = T[j] if kind == "T" else S[j]
            rop = RT[j] if kind == "T" else RS[j]
            if k == "add":
                T.append(T[o["v"]] + operand)
                RT.append(RT[o["v"]] + rop)
            else:
                t = T[o["v"]]
                t += operand
                if t is not T[o["v"]]:
                    raise Mismatch("iadd-returns-other-object", step, "")
                RT[o["v"]] = RT[o["v"]] + rop
        elif k in ("mul", "rmul", "imul"):
            n = o["n"]
            if k == "imul":
                def f():
                    t = T[o["v"]]
                    t *= n
                    return t
                a = outcome(f)
            elif k == "mul":
                a = outcome(lambda: T[o["v"]] * n)
            else:
                a = outcome(lambda: n * T[o["v"]])
            b = outcome(lambda: RT[o["v"]] * n)
            if a[0] != b[0]:
                raise Mismatch("exception-behaviour", step, f"tsim {a[0]} {a[1] if a[0] == 'raised' else ''} / stim {b[0]}")
            if a[0] == "ok":
                if k == "imul":
                    RT[o["v"]] = b[1]
                else:
                    T.append(a[1])
                    RT.append(b[1])
        elif k == "slice":
            sl = slice(o["start"], o["stop"], o["step"])
            F = T[o["v"]].stim_circuit                      # the REPEAT-free representative (checked below to be ~ RT)
            a = outcome(lambda: T[o["v"]][sl])
            b = outcome(lambda: F[sl])
            if a[0] != b[0]:
                raise Mismatch("exception-behaviour", step, f"slice: tsim {a} / stim {b[0]}")
            if a[0] == "ok":
                T.append(a[1])
                RT.append(b[1])
        elif k == "pop":
            F = T[o["v"]].stim_circuit
            a = outcome(lambda: T[o["v"]].pop(o["i"]))
            b = outcome(lambda: F.pop(o["i"]))
            if a[0] != b[0]:
                raise Mismatch("exception-behaviour", step, f"pop: tsim {a} / stim {b}")
            if a[0] == "ok":
                if str(a[1]) != str(b[1]):
                    raise Mismatch("pop-returns", step, f"{a[1]} vs {b[1]}")
                RT[o["v"]] = F
        elif k == "copy":
            T.append(T[o["v"]].copy())
            RT.append(RT[o["v"]].copy())
        elif k == "without_noise":
            T.append(T[o["v"]].without_noise())
            RT.append(RT[o["v"]].without_noise())
        elif k == "without_annotations":
            T.append(T[o["v"]].without_annotations())
            RT.append(ref_without_annotations(RT[o["v"]]))
        elif k == "stim_circuit":
            S.append(T[o["v"]].stim_circuit)
            RS.append(RT[o["v"]].copy())
        elif k == "stim_iadd":
            extra = stim.Circuit(o["text"])
            S[o["s"]] += extra
            RS[o["s"]] = RS[o["s"]] + extra
        elif k == "observe":
            before = [(id(t._stim_circ), str(t._stim_circ)) for t in T] + [(id(s), str(s)) for s in S]
            observe(T[o["v"]], o["what"])
            after = [(id(t._stim_circ), str(t._stim_circ)) for t in T] + [(id(s), str(s)) for s in S]
            if before != after:
                raise Mismatch("observer-modified-state", step, f"{o['what']} changed the heap")
        else:
            raise ValueError(k)
        lens.append([len(t) for t in T])
        if check_every_step:
            compare_states(T, S, RT, RS, step)
    return T, S, RT, RS, lens


def compare_states(T, S, RT, RS, step):
    tags = Tags()
    if len(T) != len(RT) or len(S) != len(RS):
        raise Mismatch("variable-count", step, f"{len(T)}/{len(RT)} {len(S)}/{len(RS)}")
    ids = [id(t._stim_circ) for t in T] + [id(s) for s in S]
    if len(set(ids)) != len(ids):
        dup = [i for i, x in enumerate(ids) if ids.count(x) > 1]
        raise Mismatch("aliasing", step, f"variables {dup} (tsim handles first, then stim objects) share one stim.Circuit object")
    for v, (t, r) in enumerate(zip(T, RT)):
        w = t._stim_circ
        if has_repeat(w):
            raise Mismatch("repeat-block", step, f"tsim variable {v} wraps a circuit with a REPEAT block: {str(w)!r}")
        if any(getattr(x, "name", "") == "SHIFT_COORDS" for x in w):
            # the wrapped circuit is stated to BE the flattened circuit: Stim's flattened() folds every SHIFT_COORDS into
            # the coordinates that follow and removes the instruction, so none may be left behind
            raise Mismatch("not-flattened", step, f"tsim variable {v} wraps a circuit that still contains SHIFT_COORDS "
                           f"(not a fixpoint of stim's flattened()): {str(w)!r} vs flattened {str(w.flattened())!r}")
        a = enc_circ(w.flattened(), tags, strict=False)
        b = enc_circ(r.flattened(), tags)
        if a != b:
            kind = "coords" if strip_coords(a) == strip_coords(b) else "value"
            diff = next(((x, y) for x, y in zip(a, b) if x != y), None)
            more = f" (first differing instruction, arguments in units of 1/{ARG_UNIT}: {diff[0]} vs {diff[1]})" if diff else ""
            raise Mismatch(kind, step, f"tsim variable {v}: {str(w.flattened())!r} but flattened Stim reference {str(r.flattened())!r}{more}")
        ca, cb = counts_of(t), counts_of(r)
        if ca != cb:
            raise Mismatch("counts", step, f"tsim variable {v}: (meas, det, obs, qubits, ticks) {ca} vs Stim {cb}")
    for j, (s, r) in enumerate(zip(S, RS)):
        a = enc_circ(s.flattened(), tags, strict=False)
        b = enc_circ(r.flattened(), tags)
        if a != b:
            kind = "coords" if strip_coords(a) == strip_coords(b) else "value"
            raise Mismatch(kind + "-stim-operand", step, f"user's stim object {j} is {str(s)!r}, expected {str(r)!r}")


# ---------------------------------------------------------------------------------------------------
# the Coq side
# ---------------------------------------------------------------------------------------------------

def coq_opt(x):
    return "None" if x is None else f"(Some {cq.z(x)})"


def coq_history(h, tags: Tags) -> str:
    from tsim.utils.program_text import shorthand_to_stim
    parts = []
    for o in h:
        k = o["op"]
        if k == "text":
            parts.append("OText " + coq_circ(enc_circ(stim.Circuit(shorthand_to_stim(o["text"])), tags)))
        elif k == "stim_new":
            parts.append("OStimNew " + coq_circ(enc_circ(stim.Circuit(o["text"]), tags)))
        elif k == "from_stim":
            parts.append(f"OFromStim {o['s']}%nat")
        elif k == "append_text":
            parts.append(f"OAppendText {o['v']}%nat " + coq_circ(enc_circ(stim.Circuit(shorthand_to_stim(o["text"])), tags)))
        elif k in ("add", "iadd"):
            kind, j = o["o"]
            parts.append(f"{'OAdd' if k == 'add' else 'OIAdd'} {o['v']}%nat ({'OpT' if kind == 'T' else 'OpS'} {j}%nat)")
        elif k in ("mul", "rmul", "imul"):
            parts.append(f"{ {'mul': 'OMul', 'rmul': 'ORMul', 'imul': 'OIMul'}[k] } {o['v']}%nat {cq.z(o['n'])}")
        elif k == "slice":
            parts.append(f"OSlice {o['v']}%nat {coq_opt(o['start'])} {coq_opt(o['stop'])} {cq.z(o['step'])}")
        elif k == "pop":
            parts.append(f"OPop {o['v']}%nat {cq.z(o['i'])}")
        elif k == "copy":
            parts.append(f"OCopy {o['v']}%nat")
        elif k == "without_noise":
            parts.append(f"OWithoutNoise {o['v']}%nat")
        elif k == "without_annotations":
            parts.append(f"OWithoutAnnot {o['v']}%nat")
        elif k == "stim_circuit":
            parts.append(f"OStimCircuit {o['v']}%nat")
        elif k == "stim_iadd":
            parts.append(f"OStimIAdd {o['s']}%nat " + coq_circ(enc_circ(stim.Circuit(o["text"]), tags)))
        elif k == "observe":
            parts.append(f"OObserve 0%nat {o['v']}%nat")
        else:
            raise ValueError(k)
    return "[" + ";\n ".join(parts) + "]"


SHOW_DEFS = """
Definition show_state (sr : st * rst) :=
  let '(s, r) := sr in
  (map (fun v => show_flat (tval s v)) (seq 0 (List.length (tv s))),
   map (fun w => map show_i (flattened_l (sval s w))) (seq 0 (List.length (sv s))),
   map (fun c => (map show_i (flattened_l c), show_counts (counts_c c))) (rt r),
   map (fun v => show_counts (counts_l (flatten0 (tval s v)))) (seq 0 (List.length (tv s))),
   (tv s ++ sv s)).
"""


def model_states(tag, histories, tags: Tags):
    terms = [f"show_state (both_run {coq_history(h, tags)})" for h in histories]
    out = []
    for i in range(0, len(terms), 150):
        out += cq.eval_terms(f"{tag}_{i // 150}", IMPORTS, terms[i:i + 150], defs=SHOW_DEFS)
    return out


def compare_with_model(ctx, h, res, T, S, RT, RS, tags: Tags):
    """res = parsed show_state; returns a description of the first difference or None"""
    tvals, svals, rvals, tcounts, addrs = res
    if len(tvals) != len(T) or len(svals) != len(S):
        return f"model has {len(tvals)} tsim / {len(svals)} stim variables, implementation {len(T)} / {len(S)}"
    for v, t in enumerate(T):
        impl = enc_circ(t._stim_circ, tags)
        mod = dec_model_flat(tvals[v])
        if any(x[0] == "REP" for x in impl):
            if mod is not None:
                return f"tsim variable {v}: implementation has a REPEAT block, model predicts a flat circuit"
            continue
        if mod != impl:
            return f"tsim variable {v}: model {mod} implementation {impl}"
        if tuple(tcounts[v]) != counts_of(t):
            return f"tsim variable {v}: model counts {tuple(tcounts[v])} implementation {counts_of(t)}"
    for j, s in enumerate(S):
        if dec_instrs(svals[j]) != enc_circ(s.flattened(), tags):
            return f"stim variable {j}: model {dec_instrs(svals[j])} implementation {enc_circ(s.flattened(), tags)}"
    for v, r in enumerate(RT):
        flat, cnt = rvals[v][0], rvals[v][1:] if len(rvals[v]) > 2 else rvals[v][1]
        if dec_instrs(flat) != enc_circ(r.flattened(), tags):
            return f"reference {v}: model fuse(flattened) {dec_instrs(flat)} but Stim {enc_circ(r.flattened(), tags)}"
        if tuple(cnt) != counts_of(r):
            return f"reference {v}: model counts {tuple(cnt)} but Stim {counts_of(r)}"
    if len(set(addrs)) != len(addrs):
        return f"model predicts aliasing (addresses {addrs})"
    return None


# ---------------------------------------------------------------------------------------------------
# validation of Spec/StimCircuit.v's tables against the installed Stim
# ---------------------------------------------------------------------------------------------------

def probe_not_fusable() -> list[str]:
    nf = []
    for name, g in stim.gate_data().items():
        if name == "REPEAT":
            continue
        if g.is_two_qubit_gate:
            tg, tg2 = "0 1", "2 3"
        elif name in ("MPP", "SPP", "SPP_DAG"):
            tg, tg2 = "X0*Z1", "Y2"
        elif name in ("DETECTOR", "OBSERVABLE_INCLUDE"):
            tg = tg2 = "rec[-1]"
        elif name in ("TICK", "SHIFT_COORDS"):
            tg = tg2 = ""
        elif name in ("E", "ELSE_CORRELATED_ERROR"):
            tg, tg2 = "X0", "Z1"
        else:
            tg, tg2 = "0", "1"
        args = ""
        if name == "OBSERVABLE_INCLUDE":
            args = "(0)"
        elif name == "PAULI_CHANNEL_1":
            args = "(0.125,0.125,0.125)"
        elif name == "HERALDED_PAULI_CHANNEL_1":
            args = "(0.125,0.125,0.125,0.125)"
        elif name == "PAULI_CHANNEL_2":
            args = "(" + ",".join(["0.015625"] * 15) + ")"
        elif (g.is_noisy_gate and not g.produces_measurements) or name == "HERALDED_ERASE":
            args = "(0.125)"
        elif name == "SHIFT_COORDS":
            args = "(1)"
        pre = "M 0\n" if name in ("DETECTOR", "OBSERVABLE_INCLUDE") else ""
        c = stim.Circuit(f"{pre}{name}{args} {tg}\n{name}{args} {tg2}")
        if len(c) != 1 + (1 if pre else 0):
            nf.append(name)
    return sorted(nf)


def check_tables(ctx):
    gd = stim.gate_data()
    want = {
        "not_fusable_names": probe_not_fusable(),
        "meas_names": sorted(n for n, g in gd.items() if g.produces_measurements),
        "noisy_names": sorted(n for n, g in gd.items() if g.is_noisy_gate),
        "herald_names": sorted(n for n, g in gd.items() if g.produces_measurements and g.is_noisy_gate and n.startswith("HERALDED")),
    }
    got = cq.eval_terms("c17_tables", IMPORTS, list(want))
    for (k, w), g in zip(want.items(), got):
        if sorted(g) != w:
            ctx.broken.append(f"correspondence:Spec/StimCircuit.v table {k} = {sorted(g)} but the installed Stim says {w}")
    ctx.cov["stim_tables_checked"] = {k: len(v) for k, v in want.items()}


# ---------------------------------------------------------------------------------------------------
# directed cases
# ---------------------------------------------------------------------------------------------------
DIRECTED = [
    ("iadd-stim-repeat", [{"op": "text", "text": "H 0"}, {"op": "stim_new", "text": "H 0\nREPEAT 2 {\n    X 0\n    M 0\n}"},
                          {"op": "iadd", "v": 0, "o": ["S", 0]}]),
    ("add-stim-repeat", [{"op": "text", "text": "H 0"}, {"op": "stim_new", "text": "REPEAT 3 {\n    X 0\n    REPEAT 2 {\n        M 0\n    }\n}"},
                         {"op": "add", "v": 0, "o": ["S", 0]}, {"op": "pop", "v": 1, "i": 1}]),
    ("self-add", [{"op": "text", "text": "H 0\nM 0"}, {"op": "iadd", "v": 0, "o": ["T", 0]}, {"op": "add", "v": 0, "o": ["T", 0]},
                  {"op": "pop", "v": 0, "i": 0}]),
    ("copy-then-mutate", [{"op": "text", "text": "H 0\nX 0\nH 1"}, {"op": "copy", "v": 0}, {"op": "append_text", "v": 1, "text": "M 0"},
                          {"op": "pop", "v": 0, "i": 1}, {"op": "copy", "v": 0}, {"op": "pop", "v": 0, "i": 0}, {"op": "imul", "v": 1, "n": 2}]),
    ("stim-circuit-then-mutate", [{"op": "text", "text": "H 0\nM 0"}, {"op": "stim_circuit", "v": 0}, {"op": "stim_iadd", "s": 0, "text": "X 1"},
                                  {"op": "from_stim", "s": 0}, {"op": "stim_iadd", "s": 0, "text": "Y 2"}, {"op": "iadd", "v": 1, "o": ["S", 0]}]),
    ("slice-then-mutate", [{"op": "text", "text": "H 0\nX 0\nH 1\nX 1\nH 2"}, {"op": "slice", "v": 0, "start": None, "stop": None, "step": 2},
                           {"op": "slice", "v": 0, "start": 1, "stop": -1, "step": 1}, {"op": "iadd", "v": 1, "o": ["T", 2]},
                           {"op": "slice", "v": 0, "start": None, "stop": None, "step": -1}]),
    ("mul-family", [{"op": "text", "text": "H 0\nM 0\nDETECTOR rec[-1]\nTICK"}, {"op": "mul", "v": 0, "n": 3}, {"op": "rmul", "v": 0, "n": 0},
                    {"op": "imul", "v": 0, "n": 2}, {"op": "mul", "v": 0, "n": 1}, {"op": "imul", "v": 1, "n": -1}, {"op": "mul", "v": 1, "n": -2}]),
    ("without", [{"op": "text", "text": "H 0\nX_ERROR(0.125) 0\nH 1\nM(0.25) 0\nTICK\nDETECTOR(1, 2) rec[-1]\nM 1\nOBSERVABLE_INCLUDE(1) rec[-1]\nHERALDED_ERASE(0.125) 0\nMPAD 1\nE(0.25) X0\nMPP(0.125) X0*Z1"},
                 {"op": "without_noise", "v": 0}, {"op": "without_annotations", "v": 0}, {"op": "without_annotations", "v": 1},
                 {"op": "without_noise", "v": 2}]),
    ("repeat-text", [{"op": "text", "text": "REPEAT 2 {\n    T 0\n    REPEAT 2 {\n        H 0\n    }\n    H 0\n}\nH 0"},
                     {"op": "append_text", "v": 0, "text": "REPEAT 2 {\n    H 0\n}\nM 0"}, {"op": "pop", "v": 0, "i": -1}]),
    ("shift-stim-operand", [{"op": "text", "text": "M 0 1\nDETECTOR(0, 0) rec[-1] rec[-2]"},
                            {"op": "stim_new", "text": "SHIFT_COORDS(0, 5)\nTICK\nM 0 1\nDETECTOR(1, 0) rec[-1] rec[-3]"},
                            {"op": "iadd", "v": 0, "o": ["S", 0]}, {"op": "add", "v": 0, "o": ["S", 0]},
                            {"op": "slice", "v": 1, "start": -2, "stop": None, "step": 1},
                            {"op": "append_text", "v": 0, "text": "SHIFT_COORDS(1)\nM 0\nDETECTOR(2) rec[-1]"}]),
    ("shift-coords", [{"op": "text", "text": "SHIFT_COORDS(1, 2)\nM 0"}, {"op": "append_text", "v": 0, "text": "DETECTOR(0) rec[-1]"}]),
]


def shrink(h, fails):
    """greedy removal of operations that keeps `fails(h)` true (variable indices are kept valid by only
    dropping trailing operations and operations that create no variable)"""
    cur = list(h)
    changed = True
    creates = {"text", "stim_new", "from_stim", "add", "mul", "rmul", "slice", "copy", "without_noise", "without_annotations", "stim_circuit"}
    while changed:
        changed = False
        for i in range(len(cur) - 1, -1, -1):
            if cur[i]["op"] in creates and i != len(cur) - 1:
                continue
            cand = cur[:i] + cur[i + 1:]
            try:
                if cand and fails(cand):
                    cur = cand
                    changed = True
            except Exception:
                pass
    return cur


def first_mismatch(h):
    try:
        run_history(h)
        return None
    except Mismatch as m:
        return m


def key_of(m: Mismatch, h) -> str:
    if m.kind.startswith("coords"):
        return SHIFT_KEY
    last = h[min(m.step, len(h) - 1)]
    opn = last["op"]
    extra = ""
    if opn in ("add", "iadd"):
        extra = "-" + ("stim" if last["o"][0] == "S" else "tsim") + "-operand"
    return f"{m.kind}:{opn}{extra}"


def report(ctx, h, m: Mismatch):
    def fails(c):
        mm = first_mismatch(c)
        return mm is not None and (mm.kind.startswith("coords") == m.kind.startswith("coords"))
    small = shrink(h[: m.step + 1], fails)
    mm = first_mismatch(small) or m
    ctx.violation(key_of(mm, small), f"{mm.kind} after `{small[min(mm.step, len(small) - 1)]['op']}`: {mm.detail}"[:900],
                  {"history": small, "mismatch": mm.kind, "detail": mm.detail})


def run(ctx: Ctx) -> int:
    model_ok = standard_model_phase(ctx, TRANSLATORS, COQ_FILES, "Props.C17", "Props/C17.v")
    ctx.trusted += [
        "translator /verif/translate/circuit_effects.py (Python ast -> effect IR of Model/CircuitEffects.v)",
        "Spec/StimCircuit.v: model of Stim's container operations, tied by the three-way correspondence below",
        "callees receiving the live wrapped circuit are assumed read-only (checked dynamically by the observer probes)",
    ]
    try:
        import tsim  # noqa
        from tsim import Circuit  # noqa
    except Exception as e:
        ctx.violation("import-failure", f"tsim cannot be imported: {e!r}", {"error": repr(e)}, no_failing_input=True)
        return ctx.finish("n/a")
    model_usable = not any(b.startswith("translator:") or "Model/" in b or "Gen_circuit" in b or "Spec/" in b for b in ctx.broken)
    rng = ctx.rng
    quick = ctx.quick
    if model_usable:
        check_tables(ctx)

    profiles = [
        dict(allow_repeat=True, allow_shift=False, kind="mixed"),
        dict(allow_repeat=True, allow_shift=False, kind="mixed"),
        dict(allow_repeat=True, allow_shift=True, kind="mixed"),
        dict(allow_repeat=False, allow_shift=False, kind="mixed"),
        dict(allow_repeat=True, allow_shift=False, kind="unitary", heavy_observers=True),
    ]
    histories = [(name, h) for name, h in DIRECTED]
    n_rand = 300 if quick else 3000
    for i in range(n_rand):
        p = profiles[i % len(profiles)]
        L = rng.randrange(3, 13) if quick else rng.randrange(3, 25)
        histories.append((f"random-{i}", gen_history(rng, L, p)))

    tags = Tags()
    survivors = []
    for name, h in histories:
        kinds = sorted({o["op"] for o in h})
        nontriv = any("REPEAT" in o.get("text", "") for o in h) or any(o["op"] in ("iadd", "add", "imul", "mul", "slice", "pop") for o in h)
        ctx.count((name, json.dumps(h, sort_keys=True)), nontrivial=nontriv, bucket=f"len{min(len(h), 12) // 4 * 4}-{min(len(h), 12) // 4 * 4 + 3}")
        for k in kinds:
            ctx.hist["op:" + k] = ctx.hist.get("op:" + k, 0) + sum(1 for o in h if o["op"] == k)
        try:
            T, S, RT, RS, lens = run_history(h)
            survivors.append((name, h, T, S, RT, RS))
            if name.startswith("random-") and len(ctx.samples) < 3:
                ctx.sample({"history": h[:6], "final_tsim": [str(t) for t in T][:3]})
        except Mismatch as m:
            report(ctx, h, m)
    ctx.cov["histories"] = len(histories)

    # ---- model vs implementation (exact instruction lists, counts, addresses) ----
    if model_usable and survivors:
        try:
            res = model_states("c17_hist", [h for _, h, *_ in survivors], tags)
            bad = 0
            for (name, h, T, S, RT, RS), r in zip(survivors, res):
                d = compare_with_model(ctx, h, r, T, S, RT, RS, tags)
                if d is not None:
                    bad += 1
                    if bad <= 3:
                        ctx.broken.append(f"correspondence:{name}: {d[:700]} history={json.dumps(h)[:600]}")
            ctx.cov["histories_compared_with_model"] = len(survivors)
        except Exception as e:  # the model could not be evaluated: a broken tie, not a verdict
            ctx.broken.append(f"correspondence:model evaluation failed: {str(e)[:600]}")

    if ctx.broken and not ctx.violations:
        report_broken_without_input(ctx)
    return ctx.finish(
        rule="case = one operation history (text ctor, from_stim_program, append_from_stim_program_text, +, +=, *, *=, rmul, "
             "slicing, pop, copy, without_noise, without_annotations, stim_circuit, user mutation of stim operands, observers) "
             "over generated programs with/without REPEAT (nested), tags, annotations, SHIFT_COORDS, zero-target instructions; "
             "10 directed histories + random ones (length 3..12 quick, 3..24 thorough) from one PRNG (VERIF_SEED). After every "
             "operation every variable is compared between tsim and the pure-Stim reference; final states are compared with the "
             "Coq model (exact instruction lists). non-trivial = contains REPEAT text or a combining/index operation.",
        explanation="Theorems C17_* over the regenerated effect summaries; see DESIGN.md 4.C17",
        assumptions=["Stim's container operations behave as Spec/StimCircuit.v (validated by the correspondence)"],
    )


def replay(ctx: Ctx, obj) -> int:
    r = obj.get("replay") or {}
    h = r.get("history")
    print(json.dumps(r, indent=1)[:3000])
    if not h:
        return 1
    m = first_mismatch(h)
    if m is None:
        print("implementation now agrees with the pure-Stim reference on this history")
        return 0
    print("STILL FAILS:", m)
    return 1
