"""C02 -- Pauli noise instructions act with their documented Paulis and probabilities."""
from __future__ import annotations

import time

from harness.circgen import gen
from harness.common import Ctx, report_broken_without_input, standard_model_phase
from harness.distcheck import MODEL_FILES, MODEL_TRANSLATORS, run_cases

MANIFEST = dict(
    text=("Machine-checked proof (Coq 8.16.1) over the regenerated noise fragments and probability tables: for every error-bit "
          "pattern the spiders drawn by X/Y/Z_ERROR, PAULI_CHANNEL_1/2, DEPOLARIZE1/2 and E(...) apply exactly the documented "
          "Pauli (vm_compute over exponential polynomials), and the table entry at that pattern is the argument Stim documents "
          "for that Pauli, for ALL argument values (symbolic); every non-identity outcome of DEPOLARIZE1/2 is p/3, p/15; "
          "correlated chains of any length k have P(outcome i)=prod_{j<i}(1-p_j) p_i (induction); measurement noise on "
          "M/MX/MY/MR*/MPP flips only the reported bit (Kraus operator = projection on the true outcome). The tables are "
          "translated from channels.py, the fragments from instructions.py, on every run. Whole circuits: the Coq model's exact "
          "mixture is compared with the real sampler's exact mixture (channel pushforward x forced sampling) and the reference "
          "simulator on generated noisy circuits incl. one-hot arguments of the 3/15-argument channels. Composition: proved for circuits of "
          "gates, (noisy) single-qubit measurements, resets and single-qubit Pauli channels on registers of any size, for every bit "
          "assignment and every probability argument (C02_circuit_dense), including DEPOLARIZE2 / PAULI_CHANNEL_2 (their program acts as "
          "PAULI_CHANNEL_1 on each target, C02_two_qubit_channel) and correlated-error chains (an element applies its Pauli product iff its "
          "chain bit is set, with the bit numbering of finalize_correlated_error, C02_chain_element; C02_chain_from_text reads a chain "
          "interrupted by other channels from the parsed text); MPP noise is the noisy measurement of the auxiliary qubit."),
    note=("Trusted: as C01; additionally translate/channel_tables.py, the hand model of correlated_error_probs (fingerprint-pinned), "
          "float64 exactness of dyadic test probabilities. Print Assumptions: closed under the global context, except "
          "functional_extensionality_dep (standard library) for C02_circuit_dense and C02_chain_element."),
    technique="Coq proofs (finite vm_compute tables, symbolic table entries, induction over chain length) + executable circuit model vs exact sampler mixture",
    design_ref="DESIGN.md 4.C02",
)
COQ_FILES = MODEL_FILES + ["Base/Amp.v", "Model/KrausCheck.v", "Proofs/CircuitProofs.v", "Proofs/CircuitTheorem.v", "Proofs/BitIdx.v",
                          "Proofs/DenseBridge.v", "Proofs/KrausSem.v", "Proofs/KrausLocal.v", "Proofs/KrausTheorem.v", "Proofs/KrausGates.v", "Proofs/KrausFeedback.v", "Proofs/KrausNoise2.v", "Proofs/KrausRot.v", "Proofs/KrausChain.v",
                          "Proofs/KrausCircuit.v", "Proofs/ParseElab.v", "Proofs/KrausBorn.v", "Proofs/ParseBorn.v", "Proofs/ParseOk.v", "Props/C02.v"]


def run(ctx: Ctx) -> int:
    standard_model_phase(ctx, MODEL_TRANSLATORS, COQ_FILES, "Props.C02", "Props/C02.v")
    ctx.trusted += ["as C01: hand models Lane.v/Parse.v, pyzx/JAX oracles, reference simulator",
                    "translate/channel_tables.py; hand model corr_table of correlated_error_probs (fingerprint)"]
    rng = ctx.np_rng()
    # tie of the hand model of correlated_error_probs (+ its fingerprint) to the running code
    tie_corr(ctx)
    corpus = ["H 0\nM(0.125) 0\nM 0", "H 0\nCX 0 1\nMX(0.25) 0\nMX 1", "H 0\nMR(0.125) 0\nM 0", "X 0\nMR(0.125) !0\nM 0",
              "H 0 1\nMPP(0.125) X0*Z1\nM 0 1", "H 0\nCX 0 1\nDEPOLARIZE2(0.9375) 0 1\nMPP Z0*Z1\nMPP X0*X1",
              "RX 0\nPAULI_CHANNEL_1(0.0, 0.25, 0.0) 0\nMX 0\nMY 0", "H 0\nCX 0 1\nPAULI_CHANNEL_2(0,0,0,0,0,0,0,0,0,0,0,0,0,0,0.5) 0 1\nMX 0\nMX 1",
              "E(0.25) X0\nELSE_CORRELATED_ERROR(0.5) X1\nH 0\nELSE_CORRELATED_ERROR(0.5) Z0 Y1\nM 0 1",
              "RY 0\nMY(0.25) !0\nMY 0", "H 0\nY_ERROR(0.375) 0\nH 0\nM 0\nMX 0"]
    # one-hot sweep over the 15 argument positions of PAULI_CHANNEL_2 and the 3 of PAULI_CHANNEL_1
    for k in range(15):
        args = ["0"] * 15
        args[k] = "0.5"
        corpus.append("H 0\nCX 0 1\nS 1\nPAULI_CHANNEL_2(" + ",".join(args) + ") 0 1\nMPP X0*X1 Z0*Z1\nMY 0")
    for k in range(3):
        args = ["0"] * 3
        args[k] = "0.25"
        corpus.append("RY 0\nPAULI_CHANNEL_1(" + ",".join(args) + ") 0\nMY 0\nMX 0")
    # a two-qubit channel with 15 DISTINCT weights across two Bell pairs, read out by stabiliser measurements in several orders:
    # all four error bits survive the basis reduction and their signatures come in a different order each time
    # (exercises the axis bookkeeping of the channel simplification on asymmetric 4-bit tables)
    pc2 = ",".join(repr((k + 1) / 256) for k in range(15))
    import itertools as _it
    prods = ["X0*X1", "Z0*Z1", "X2*X3", "Z2*Z3"]
    orders = list(_it.permutations(prods))
    for o in [orders[i] for i in ([0, 7, 10, 17, 22] if ctx.quick else range(24))]:
        corpus.append(f"H 0\nCX 0 1\nH 2\nCX 2 3\nPAULI_CHANNEL_2({pc2}) 1 2\nMPP " + " ".join(o))
    corpus.append(f"H 0\nCX 0 1\nH 2\nCX 2 3\nPAULI_CHANNEL_2({pc2}) 2 1\nMX 0 1\nM 2 3")
    pc1 = "0.0625, 0.125, 0.25"
    corpus.append(f"H 0\nCX 0 1\nPAULI_CHANNEL_1({pc1}) 0 1\nMPP Y0*Y1 X0*X1")
    corpus.append("H 0\nCX 0 1\nCX 1 2\nE(0.25) X0 Z1\nELSE_CORRELATED_ERROR(0.5) Y2\nELSE_CORRELATED_ERROR(0.125) Z0 X2\nMPP X0*X1*X2 Z1*Z2 Z0*Z1")
    # an asymmetric multi-bit channel next to a larger channel that covers its signatures (it is absorbed: expand_channel), in both
    # orders and on either qubit; correlated chains whose column ids are a cyclic rotation of sorted order; a chain with 5 links
    corpus += ["H 0\nCX 0 1\nPAULI_CHANNEL_1(0.30,0.02,0.05) 0\nDEPOLARIZE2(0.1) 0 1\nMPP X0*X1 Z0*Z1",
               "H 0\nCX 0 1\nDEPOLARIZE2(0.1) 0 1\nPAULI_CHANNEL_1(0.02,0.05,0.30) 1\nMPP Z0*Z1 X0*X1",
               f"H 0\nCX 0 1\nH 2\nCX 2 3\nPAULI_CHANNEL_1(0.25,0.0625,0.03125) 2\nPAULI_CHANNEL_2({pc2}) 1 2\nMPP X0*X1 Z0*Z1 Z2*Z3 X2*X3",
               "E(0.1) X0 X2\nELSE_CORRELATED_ERROR(0.3) X1\nELSE_CORRELATED_ERROR(0.6) X0\nM 0 1 2",
               "E(0.25) X1 X2\nELSE_CORRELATED_ERROR(0.125) X2 X0\nELSE_CORRELATED_ERROR(0.5) X0\nM 2 0 1",
               "E(0.5) X0\nELSE_CORRELATED_ERROR(0.5) X1\nELSE_CORRELATED_ERROR(0.25) X2\nELSE_CORRELATED_ERROR(0.125) X3\nELSE_CORRELATED_ERROR(0.75) X4\nM 0 1 2 3 4"]
    # a chain followed by other channels before it is finalized (the chain's bits are numbered at the finalize)
    corpus = ["E(0.5) X0\nX_ERROR(0.25) 2\nELSE_CORRELATED_ERROR(1) X1\nM 0 1 2",
              "E(0.25) X0 X1\nDEPOLARIZE1(0.125) 2\nELSE_CORRELATED_ERROR(0.5) X1\nM(0.125) 2\nELSE_CORRELATED_ERROR(1) X0\nM 0 1 2",
              "H_YZ 5\nRX 7\nE(0.25) Z7 Z5\nH 5 7\nMR(0.125) 7\nMX 5 7",
               "H 0\nSQRT_X 2\nH 5\nE(0.125) Z5\nELSE_CORRELATED_ERROR(0.25) Y5\nSQRT_ZZ 2 5 2 0\nSQRT_X 2 5\nPAULI_CHANNEL_1(0.0, 0.0, 0.5) 5\nZ 5 2\nT_DAG 2\nH_XZ 2 0\nMX 0 2 5",
               "H 0\nE(0.25) X0\nX_ERROR(0.125) 0\nELSE_CORRELATED_ERROR(0.5) Z0\nDEPOLARIZE1(0.25) 0\nM 0\nE(0.5) Y0\nM(0.125) 0\nMX 0"] + corpus
    # long chains (more than ten elements: two-digit chain bits) with pairwise different probabilities, and elements without targets
    ps12 = [0.0625 * k for k in range(1, 13)]
    corpus = ["\n".join(f"{'E' if i == 0 else 'ELSE_CORRELATED_ERROR'}({p}) X{i}" for i, p in enumerate(ps12)) + "\nM " + " ".join(map(str, range(12))),
              "H 0\n" + "\n".join(f"{'E' if i == 0 else 'ELSE_CORRELATED_ERROR'}({p}) {'XZ'[i % 2]}{i % 3}" for i, p in enumerate(reversed(ps12[:11]))) + "\nMX 0\nM 1 2",
              "E(0.25) X1\nELSE_CORRELATED_ERROR(0.5)\nELSE_CORRELATED_ERROR(0.5) X0\nM 0 1", "E(0.25)\nELSE_CORRELATED_ERROR(0.5) X0\nM 0"] + corpus
    cases = [(t, {"corpus": 1}, False) for t in corpus]
    for _ in range(20 if ctx.quick else 600):
        cases.append(gen(rng, nq_max=(4 if rng.random() < 0.3 else 3), max_meas=4, max_noise=3, annotated=False, max_instr=12))
    stats = run_cases(ctx, cases, det=False, label="noise", model_max=(30 if ctx.quick else 200), elab=True,
                      deadline=time.time() + (150 if ctx.quick else 1500))
    ctx.cov.update({"stats": stats})
    # the SAMPLED channel bits (not only the tables): a chain of 9..12 elements in which exactly one element fires with certainty flips
    # exactly that element's qubit in every shot of the public sampler; and a chain whose elements all have p < 1 flips at most one qubit
    import numpy as np
    import tsim
    for k in (9, 10, 12):
        for j in sorted({0, 4, 7, 8, k - 1}):
            text = "\n".join(f"{'E' if i == 0 else 'ELSE_CORRELATED_ERROR'}({1 if i == j else 0}) X{i}" for i in range(k)) + "\nM " + " ".join(map(str, range(k)))
            try:
                arr = np.asarray(tsim.Circuit(text).compile_sampler(seed=11).sample(32)).astype(int)
            except Exception as e:
                ctx.violation(f"chain-sampling-raises:{k}:{j}", f"sampling a {k}-element chain raised {e!r}", {"text": text, "kind": "chain-sampling"})
                continue
            ctx.count(("chain-sampling", k, j), nontrivial=True, bucket="sampled-long-chain")
            want = np.zeros(k, dtype=int)
            want[j] = 1
            if not (arr == want[None, :]).all():
                ctx.violation(f"chain-sampling:{k}-elements", f"a {k}-element chain whose element {j} fires with certainty: the sampler returned {arr[0].tolist()} (first shot), expected only qubit {j} flipped",
                              {"text": text, "kind": "chain-sampling", "expected": want.tolist()})
                break
        text = "\n".join(f"{'E' if i == 0 else 'ELSE_CORRELATED_ERROR'}(0.5) X{i}" for i in range(k)) + "\nM " + " ".join(map(str, range(k)))
        arr = np.asarray(tsim.Circuit(text).compile_sampler(seed=5).sample(512)).astype(int)
        ctx.count(("chain-sampling-uniform", k), nontrivial=True, bucket="sampled-long-chain")
        if (arr.sum(axis=1) > 1).any() or abs((arr.sum(axis=1) == 0).mean() - 0.5 ** k) > 0.03:
            ctx.violation(f"chain-sampling-halves:{k}-elements", f"a {k}-element chain with p=1/2 per element: {int((arr.sum(axis=1) > 1).sum())} of 512 shots flip more than one qubit, "
                          f"{int((arr.sum(axis=1) == 0).sum())} flip none (expected about {512 * 0.5 ** k:.1f})",
                          {"text": text, "kind": "chain-sampling"})
    if ctx.broken and not ctx.violations:
        report_broken_without_input(ctx)
    return ctx.finish(
        rule="generated noisy circuits on 1-3 qubits, <=4 measurements, <=3 noise instructions (X/Y/Z_ERROR, DEPOLARIZE1/2, PAULI_CHANNEL_1/2 "
             "one-hot and generic dyadic arguments, E/ELSE chains with gates in between, noisy M/MX/MY/MR*/MPP) mixed with the C01 instruction "
             "set; plus a corpus with a one-hot sweep over every argument position; the exact mixture over ALL error assignments and joint "
             "outcomes is compared. non-trivial = more than one outcome with positive probability",
        explanation="C02_* theorems; whole-circuit exact mixtures: model vs real sampler vs reference",
        assumptions=["pyzx_param and JAX are oracles", "composition over whole circuits is validated, not proved"],
    )


def tie_corr(ctx: Ctx):
    """hand model of correlated_error_probs vs the running function, and the recorded fingerprint"""
    from fractions import Fraction
    import numpy as np
    from harness import coqrun as cq
    from harness.distcheck import model_usable
    import tsim.noise.channels as C
    if not model_usable(ctx):
        return
    lists = [[], [Fraction(1, 4)], [Fraction(1, 4), Fraction(1, 2)], [Fraction(1), Fraction(1, 2)], [Fraction(0), Fraction(1, 8), Fraction(3, 4)],
             [Fraction(1, 8)] * 5]
    imports = ("From Coq Require Import ZArith QArith List String. Import ListNotations.\n"
               "Require Import TV.Model.InstrCheck TV.gen.Gen_channel_tables.\n")
    terms = ["map (fun q => (Qnum (Qred q), Zpos (Qden (Qred q)))) (corr_table [" + "; ".join(f"({f.numerator} # {f.denominator})%Q" for f in l) + "])" for l in lists]
    vals = cq.eval_terms("c02_corr", imports, terms + ["correlated_error_probs_fingerprint"])
    for l, v in zip(lists, vals):
        want = [Fraction(float(x)) for x in C.correlated_error_probs([float(f) for f in l])]
        got = [Fraction(a, b) for a, b in v]
        ctx.count(("corr", tuple(l)), bucket="correlated-table")
        if want != got:
            ctx.broken.append(f"correspondence:correlated_error_probs({l}) = {want}, model corr_table = {got}")
    if vals[-1] != "b4212b3f65a7a900":
        ctx.broken.append(f"fingerprint:correlated_error_probs changed ({vals[-1]}); the hand model corr_table was written against b4212b3f65a7a900")


def replay(ctx: Ctx, obj) -> int:
    from harness.distcheck import impl_vs_ref
    r = obj.get("replay") or {}
    d, dt, dr, _ = impl_vs_ref(r["text"], bool(r.get("det")), 1e-6)
    print("max |tsim - reference| =", d)
    return 0 if d <= 1e-5 else 1
