"""Confirm a seeded change delivered in /tmp/seed-out/<ID>/ and run the property's check against it.

usage: python -m harness.tools.run_seeded <ID> [--tier quick|thorough] [--src /tmp/seed-out/<ID>] [--name <dir name under seeded/>]

Steps (all in a scratch worktree of /repo, removed afterwards; /repo itself is never modified):
  1. apply patch.diff;  2. run the repository's test-suite against the worktree (PYTHONPATH=<wt>/src) -- must pass;
  3. run demo.py against the changed worktree (must exit 1) and against /repo (must exit 0);
  4. run `VERIF_REPO=<wt> bin/check <ID> <tier>` and record exit code and VIOLATION lines;
  5. store patch, demo and meta.json under /verif/seeded/<name>/.
"""
from __future__ import annotations

import argparse
import json
import os
import re
import shutil
import subprocess
import sys
import time
from pathlib import Path

VERIF = Path("/verif")


def sh(cmd, env=None, cwd=None, timeout=3600):
    p = subprocess.run(cmd, shell=True, cwd=cwd, env=env, stdout=subprocess.PIPE, stderr=subprocess.STDOUT, text=True, timeout=timeout)
    return p.returncode, p.stdout


def main():
    ap = argparse.ArgumentParser()
    ap.add_argument("pid")
    ap.add_argument("--tier", default="quick")
    ap.add_argument("--src", default=None)
    ap.add_argument("--name", default=None)
    ap.add_argument("--skip-tests", action="store_true")
    ap.add_argument("--checks", default=None, help="comma separated property ids to run (default: the seeded property)")
    a = ap.parse_args()
    pid = a.pid.upper()
    src = Path(a.src or f"/tmp/seed-out/{pid}")
    name = a.name or pid
    wt = Path(f"/tmp/sv-{name}")
    sh(f"git -C /repo worktree remove --force {wt}")
    rc, out = sh(f"git -C /repo worktree add {wt} HEAD")
    if rc != 0:
        print(out)
        return 2
    meta_in = json.loads((src / "meta.json").read_text()) if (src / "meta.json").exists() else {}
    res = {"property": pid, "delivered": meta_in, "repo_head": sh("git -C /repo rev-parse --short HEAD")[1].strip()}
    try:
        rc, out = sh(f"git -C {wt} apply {src / 'patch.diff'}")
        res["patch_applies"] = rc == 0
        if rc != 0:
            res["apply_output"] = out[-500:]
            print("patch does not apply:", out[-500:])
        env = dict(os.environ, PYTHONPATH=f"{wt}/src", JAX_PLATFORMS="cpu", PYTHONHASHSEED="0")
        env.pop("TSIM_VERIF", None)
        if not a.skip_tests and res["patch_applies"]:
            t = time.time()
            rc, out = sh("/venv/bin/python -m pytest -q -p no:cacheprovider -n 8 --timeout=900", env=env, cwd=wt)
            m = re.search(r"(\d+) passed", out)
            f = re.search(r"(\d+) failed", out)
            res["tests"] = {"exit": rc, "passed": int(m.group(1)) if m else 0, "failed": int(f.group(1)) if f else 0, "wall_s": round(time.time() - t)}
            print("tests:", res["tests"])
        if (src / "demo.py").exists():
            rc1, o1 = sh(f"/venv/bin/python {src / 'demo.py'}", env=env, cwd=src)
            env2 = dict(env, PYTHONPATH="/repo/src")
            rc0, o0 = sh(f"/venv/bin/python {src / 'demo.py'}", env=env2, cwd=src)
            res["demo"] = {"changed_exit": rc1, "unchanged_exit": rc0, "changed_output_tail": o1[-600:]}
            print("demo: changed", rc1, "unchanged", rc0)
        checks = (a.checks.split(",") if a.checks else [pid])
        res["checks"] = {}
        for c in checks:
            t = time.time()
            envc = dict(os.environ, VERIF_REPO=str(wt))
            rc, out = sh(f"bin/check {c} {a.tier}", env=envc, cwd=VERIF, timeout=7200)
            viol = [l for l in out.splitlines() if l.startswith("VIOLATION") or l.startswith("   (")]
            res["checks"][c] = {"tier": a.tier, "exit": rc, "violation_lines": viol[:12], "no_failing_input": any("no-failing-input-found" in l for l in viol),
                                "wall_s": round(time.time() - t)}
            print(f"check {c}: exit {rc}")
            for l in viol[:6]:
                print("   ", l[:260])
        res["caught"] = any(v["exit"] == 1 for v in res["checks"].values())
        res["caught_with_replay"] = any(v["exit"] == 1 and any(l.startswith("VIOLATION") and "no-failing-input-found" not in l for l in v["violation_lines"])
                                        for v in res["checks"].values())
    finally:
        sh(f"git -C /repo worktree remove --force {wt}")
        alt = VERIF / "build" / ("alt-" + re.sub(r"[^A-Za-z0-9]+", "_", str(wt)))
        shutil.rmtree(alt, ignore_errors=True)
    dst = VERIF / "seeded" / name
    dst.mkdir(parents=True, exist_ok=True)
    if "tests" not in res and (dst / "meta.json").exists():
        try:
            old = json.loads((dst / "meta.json").read_text())["results"]
            if old.get("tests") and (dst / "patch.diff").read_text() == (src / "patch.diff").read_text():
                res["tests"] = old["tests"]
        except Exception:
            pass
    for f in ("patch.diff", "demo.py"):
        if (src / f).exists():
            shutil.copy(src / f, dst / f)
    (dst / "meta.json").write_text(json.dumps({
        "breaks_property": pid,
        "summary": meta_in.get("summary"),
        "needs_to_manifest": meta_in.get("needs"),
        "files": meta_in.get("files"),
        "what_was_run": {
            "tests": "cd <worktree> && PYTHONPATH=<worktree>/src /venv/bin/python -m pytest -q -p no:cacheprovider -n 8 --timeout=900",
            "demo": "PYTHONPATH=<worktree>/src (changed) and PYTHONPATH=/repo/src (unchanged) /venv/bin/python demo.py",
            "checks": "VERIF_REPO=<worktree> bin/check <ID> <tier>",
        },
        "results": res,
    }, indent=1))
    print(json.dumps({k: res.get(k) for k in ("caught", "caught_with_replay")}))
    return 0


if __name__ == "__main__":
    sys.exit(main())
