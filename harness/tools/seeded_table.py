"""print the markdown table of DESIGN.md section 9 from /verif/seeded/*/meta.json"""
import json
from pathlib import Path

rows = []
for d in sorted(Path(__file__).resolve().parents[2].joinpath("seeded").iterdir()):
    mf = d / "meta.json"
    if not mf.exists():
        continue
    m = json.loads(mf.read_text())
    r = m.get("results", {})
    t = r.get("tests") or {}
    tests = f"{t.get('passed', '?')} passed" + (f", {t['failed']} failed" if t.get("failed") else "")
    caught = []
    for c, v in (r.get("checks") or {}).items():
        if v["exit"] == 1:
            with_replay = any(l.startswith("VIOLATION") and "no-failing-input-found" not in l for l in v["violation_lines"])
            caught.append(f"{c} ({'failing input' if with_replay else 'broken obligation, no failing input'})")
        else:
            caught.append(f"{c}: not caught")
    summ = (m.get("summary") or "").replace("|", "/").replace("\n", " ")
    if len(summ) > 230:
        summ = summ[:227] + "..."
    rows.append(f"| `{d.name}` | {m.get('breaks_property')} | {summ} | {tests} | {'; '.join(caught)} |")
print("| seeded change | property | what it does | test suite | checks run → outcome |")
print("|---|---|---|---|---|")
print("\n".join(rows))
