"""print the current AST fingerprints of the hand-modelled functions (paste into coq/Proofs/LaneFingerprints.v after review)"""
import re
from harness.common import GEN, run_translator
print(run_translator("instructions"))
txt = (GEN / "Gen_instructions.v").read_text()
print(re.search(r"Definition fingerprints.*?\]\.", txt, flags=re.S).group(0).replace("Definition fingerprints", "Definition expected_fingerprints"))
