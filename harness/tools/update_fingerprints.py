"""regenerate /verif/hand_model_fingerprints.json from /repo/src (after reviewing an edit and updating the hand models);
also prints the Coq-side fingerprints of the lane primitives for coq/Proofs/LaneFingerprints.v"""
import json
import re

from harness.fingerprints import FILE, HAND_MODELLED, current

data = {pid: current(pid) for pid in sorted(HAND_MODELLED)}
FILE.write_text(json.dumps(data, indent=1) + "\n")
print("wrote", FILE)
missing = [(p, s) for p, d in data.items() for s, h in d.items() if h == "MISSING"]
print("missing:", missing)
