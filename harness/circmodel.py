"""Whole-circuit evaluation of the Coq model: stim circuit -> Coq `list instr` -> Model/Parse.build ->
exact weights over exponential polynomials (vm_compute) -> exact output distribution.

This is the model side of the C01/C02/C03/C19 correspondences: the distribution the MODEL assigns to a
circuit is compared with the distribution the real tsim sampler uses (harness/exactdist.tsim_dist)."""
from __future__ import annotations

import cmath
import itertools
import math
import re
from fractions import Fraction

import numpy as np
import stim

from harness import coqrun as cq

IMPORTS = ("From Coq Require Import ZArith QArith List Bool String. Import ListNotations.\n"
           "Require Import TV.Base.EP TV.Model.Lane TV.gen.Gen_instructions TV.Model.GateCheck TV.Model.InstrCheck TV.Model.Parse.\n")

_TAG = re.compile(r"^(\w+)\((.*)\)$")


class Unrepresentable(Exception):
    pass


def _expo(theta: Fraction, slots: dict) -> str:
    """rotation angle (units of pi) as an `expo` whose halving is exact"""
    q = theta * 2  # theta/2 in quarter units = theta*2
    if q.denominator == 1:
        return f"(mkE ({int(theta * 4)})%Z 0%Z 0%Z 0%Z)"
    half = theta / 2
    if half not in slots:
        if len(slots) >= 3:
            raise Unrepresentable("more than three generic rotation angles")
        slots[half] = len(slots)
    k = slots[half]
    coeffs = ["0%Z", "0%Z", "0%Z"]
    coeffs[k] = "2%Z"
    return f"(mkE 0%Z {coeffs[0]} {coeffs[1]} {coeffs[2]})"


def _q(x: float) -> str:
    fr = Fraction(x).limit_denominator(1 << 40)
    if float(fr) != float(x):
        raise Unrepresentable(f"argument {x} is not a small dyadic rational")
    return f"({fr.numerator} # {fr.denominator})%Q"


def circuit_to_coq(c: stim.Circuit):
    """returns (coq term of type list instr, n lanes incl. aux, slots dict, qubit map)"""
    c = c.flattened()
    qubits = sorted({t.value for ins in c for t in ins.targets_copy()
                     if (t.is_qubit_target or t.is_x_target or t.is_y_target or t.is_z_target)})
    qmap = {q: i for i, q in enumerate(qubits)}
    n = len(qubits) + 1
    slots: dict = {}
    items = []
    for ins in c:
        ts = []
        for t in ins.targets_copy():
            if t.is_combiner:
                ts.append("TComb")
            elif t.is_measurement_record_target:
                ts.append(f"TRec {-t.value}%nat")
            elif t.is_sweep_bit_target:
                ts.append(f"TSweep {t.value}%nat")
            elif t.is_x_target or t.is_y_target or t.is_z_target:
                P = "PX" if t.is_x_target else "PY" if t.is_y_target else "PZ"
                ts.append(f"TPauli {P} {qmap[t.value]}%nat {str(t.is_inverted_result_target).lower()}")
            else:
                ts.append(f"TQ {qmap[t.value]}%nat {str(t.is_inverted_result_target).lower()}")
        tag = ins.tag
        if ins.name in ("S", "S_DAG") and tag == "T":
            tg = "TagT"
        elif ins.name == "I" and tag:
            m = _TAG.match(tag)
            vals = {}
            okp = bool(m)
            if m:
                for part in m.group(2).split(","):
                    part = part.strip()
                    if not part:
                        continue
                    mm = re.match(r"^(\w+)=([-+]?[\d.]+)\*pi$", part)
                    if not mm:
                        okp = False
                        break
                    vals[mm.group(1)] = Fraction(mm.group(2))
            if okp:
                order = [vals[k] for k in ("theta", "phi", "lambda") if k in vals]
                tg = f'TagRot "{m.group(1)}"%string [' + "; ".join(_expo(a, slots) for a in order) + "]"
            else:
                tg = "TagOther"
        elif tag:
            tg = "TagOther"
        else:
            tg = "TagNone"
        args = "[" + "; ".join(_q(a) for a in ins.gate_args_copy()) + "]"
        items.append(f'mkI "{ins.name}"%string {args} ({tg}) [' + "; ".join(ts) + "]")
    return "[" + ";\n ".join(items) + "]", n, slots, qmap


def ep_value(p, slot_vals) -> complex:
    sc, terms = p
    ta, tb, tc = slot_vals
    return sum(c * cmath.exp(1j * math.pi * (c0 / 4 + a * ta + b * tb + g * tc)) for (c0, a, b, g, c) in terms) / 2 ** sc


ELAB_IMPORTS = "Require Import TV.Proofs.KrausCircuit TV.Proofs.ParseElab TV.Proofs.ParseOk.\n"


def model_eval(circuits: list[stim.Circuit], tag: str, timeout=1500, elab=False):
    """evaluate the Coq model on a list of circuits (one coqc call).  Per circuit returns a dict:
       {"accept": bool, "ok": bool, "nrec", "weights"[err][rec] (floats), "tables", "det_columns", "n"} or {"skip": reason}.
       elab=True adds "covered": the decision of C01_parsed_text_is_kraus_product (the text elaborates to a circuit of the composition
       theorem and the parse model's lane program is that circuit's lane program, all lanes inside the register)"""
    terms, metas = [], []
    for c in circuits:
        try:
            term, n, slots, qmap = circuit_to_coq(c)
        except Unrepresentable as e:
            metas.append({"skip": str(e)})
            continue
        if n > 6:
            metas.append({"skip": "too many lanes for the dense model"})
            continue
        metas.append({"n": n, "slots": slots})
        cov = (f",\n                    match elab_circuit {n - 1}%nat {term} with\n"
               f"                    | Some cs => parsed_ok {n}%nat {n - 1}%nat {term} cs\n"
               f"                    | None => false end") if elab else ""
        terms.append(
            f"match build {n - 1}%nat {term} with\n"
            f" | None => None\n"
            f" | Some st => Some (run_ok {n}%nat (pops st), counts {n}%nat (pops st), map (map showp) (weights {n}%nat (pops st)),\n"
            f"                    map (map (fun q => (Qnum (Qred q), Zpos (Qden (Qred q)))) ) (channels_of {n}%nat (pops st)), det_columns st{cov})\n"
            f" end")
    vals = cq.eval_terms(tag, IMPORTS + (ELAB_IMPORTS if elab else ""), terms, timeout=timeout) if terms else []
    out = []
    it = iter(vals)
    for m in metas:
        if "skip" in m:
            out.append(m)
            continue
        v = next(it)
        if v is None:
            out.append({"accept": False, "n": m["n"]})
            continue
        if elab:
            ok, (nr, ns, ne), w, tables, dets, covered = v[1]
        else:
            ok, (nr, ns, ne), w, tables, dets = v[1]
            covered = None
        sv = [0.0, 0.0, 0.0]
        for half, k in m["slots"].items():
            sv[k] = float(half)
        W = np.array([[ep_value(e, sv).real for e in row] for row in w], dtype=float)
        out.append({"accept": True, "ok": bool(ok), "nrec": nr, "nsil": ns, "nerr": ne, "weights": W,
                    "tables": [[Fraction(a, b) for a, b in t] for t in tables], "det_columns": [list(d) for d in dets], "n": m["n"], "covered": covered})
    return out


def model_dist(res, det=False):
    """exact output distribution predicted by the model from a model_eval record"""
    W = res["weights"]
    nr, ne = res["nrec"], res["nerr"]
    # probability of each error assignment: channels consume consecutive error bits, bit i of the table index = i-th bit
    perr = np.ones(2 ** ne)
    off = 0
    for t in res["tables"]:
        k = int(round(math.log2(len(t)))) if len(t) else 0
        for e in range(2 ** ne):
            idx = (e >> off) & (2 ** k - 1)
            perr[e] *= float(t[idx])
        off += k
    if off != ne:
        raise AssertionError(f"model channel tables cover {off} error bits, program uses {ne}")
    dist: dict[tuple, float] = {}
    for e in range(2 ** ne):
        if perr[e] == 0:
            continue
        row = W[e]
        tot = row.sum()
        if tot <= 1e-14:
            raise AssertionError("model weights vanish for an error assignment of positive probability")
        for r in range(2 ** nr):
            pr = perr[e] * row[r] / tot
            if pr == 0:
                continue
            bits = tuple((r >> i) & 1 for i in range(nr))
            key = bits
            if det:
                key = tuple(sum(bits[i] for i in col) % 2 for col in res["det_columns"])
            dist[key] = dist.get(key, 0.0) + pr
    return dist
