"""Primitive-call traces of the real gate functions of tsim.core.instructions, in the same record format as
Model/LaneShow.show_ops: the translator tie for the composite gate functions."""
from __future__ import annotations

import inspect
from fractions import Fraction

import numpy as np

PRIMS = ["x_phase", "z_phase", "h", "_cx_cz", "swap", "i", "_error", "_m", "_r"]
HAND_ONLY = ["add_lane", "add_dummy", "ensure_lane", "last_row", "last_edge", "detector", "observable_include",
             "tick", "finalize_correlated_error"]
QUBIT_PARAMS = ["qubit", "control", "target", "qubit1", "qubit2", "qubit_i", "qubit_j"]
PHASES = {"phase": Fraction(1, 2), "theta": Fraction(1, 2), "phi": Fraction(1), "lambda_": Fraction(3, 2)}
PROBS = {"p": Fraction(1, 8), "px": Fraction(1, 16), "py": Fraction(1, 8), "pz": Fraction(3, 16)}
P2 = ["pix", "piy", "piz", "pxi", "pxx", "pxy", "pxz", "pyi", "pyx", "pyy", "pyz", "pzi", "pzx", "pzy", "pzz"]
for k, n in enumerate(P2):
    PROBS[n] = Fraction(k + 1, 256)


def _expo(fr: Fraction) -> str:
    q = fr * 4
    assert q.denominator == 1, fr
    return f"(equarter ({int(q)})%Z)"


def _q(fr: Fraction) -> str:
    return f"({fr.numerator} # {fr.denominator})%Q"


def coq_call_for(fname, fn):
    """yield dicts {"py": kwargs, "coq": term, "pre": lanes to create first} for representative arguments"""
    if fname in PRIMS or fname in HAND_ONLY or fname.startswith("__"):
        return
    params = list(inspect.signature(fn).parameters)
    if not params or params[0] != "b":
        return
    params = params[1:]
    variants = [{}]

    def expand(key, values):
        nonlocal variants
        variants = [dict(v, **{key: val}) for v in variants for val in values]
    qi = 0
    for p in params:
        if p in QUBIT_PARAMS:
            expand(p, [qi])
            qi += 1
        elif p in PHASES:
            expand(p, [PHASES[p]])
        elif p in PROBS:
            expand(p, [PROBS[p], Fraction(0)] if p == "p" and fname not in ("depolarize1", "depolarize2", "x_error", "y_error", "z_error", "correlated_error") else [PROBS[p]])
        elif p == "invert":
            expand(p, [False, True])
        elif p == "classically_controlled":
            expand(p, [None, [True, False]])
        elif p == "paulis":
            expand(p, [[("X", 0), ("Z", 1), ("Y", 2)], [("Y", 1)]])
        elif p == "qubits":
            expand(p, [[0, 1, 2]])
        elif p == "types":
            expand(p, [["X", "Y", "Z"]])
        else:
            raise ValueError(f"lanetrace: unknown parameter {p} of {fname}")
    for v in variants:
        for pre in ([], "all"):
            if pre == "all" and fname not in ("rx", "ry", "r", "mr", "mrx", "mry", "_measure_reset", "mpp"):
                continue
            args = []
            for p in params:
                x = v[p]
                if p in QUBIT_PARAMS:
                    args.append(f"{x}%nat")
                elif p in PHASES:
                    args.append(_expo(x))
                elif p in PROBS:
                    args.append(_q(x))
                elif p == "invert":
                    args.append("true" if x else "false")
                elif p == "classically_controlled":
                    args.append("None" if x is None else f"(Some ({str(x[0]).lower()}, {str(x[1]).lower()}))")
                elif p == "paulis":
                    args.append("[" + "; ".join(f"(P{t}, {q}%nat)" for t, q in x) + "]")
                elif p == "qubits":
                    args.append("[" + "; ".join(f"{q}%nat" for q in x) + "]")
                elif p == "types":
                    args.append("[" + "; ".join("P" + t for t in x) + "]")
            lanes = [0, 1, 2, 7] if pre == "all" else []
            ex = "[" + "; ".join(f"{q}%nat" for q in lanes) + "]"
            aux = "7%nat " if fname == "mpp" else ""
            yield {"py": dict(v, __pre__=lanes), "coq": f"{ex}) (g_{fname} {aux}" + " ".join(args)}


def python_trace(I, fname, kwargs):
    """call the real function with wrapped primitives; record depth-0 primitive calls"""
    from pyzx_param.utils import VertexType
    kwargs = dict(kwargs)
    lanes = kwargs.pop("__pre__")
    trace = []
    depth = [0]
    origs = {n: getattr(I, n) for n in PRIMS}

    class SpyList(list):
        def __init__(self, tag):
            super().__init__()
            self.tag = tag

        def append(self, x):
            if depth[0] == 0:
                if self.tag == "chan":
                    arr = np.asarray(x, dtype=float)
                    trace.append((10, ("chan", len(arr), tuple(round(float(v), 12) for v in arr))))
                else:
                    trace.append((12, ("p", round(float(x), 12))))
            super().append(x)

    class Spy(I.GraphRepresentation):
        pass

    b = I.GraphRepresentation()
    for q in lanes:
        real_q = -2 if q == 7 else q
        I.i(b, real_q)
    b.channel_probs = SpyList("chan")
    b.correlated_error_probs = SpyList("corr")

    class ScalarSpy:
        def __init__(self, inner):
            object.__setattr__(self, "_inner", inner)

        def add_phase(self, ph):
            if depth[0] == 0:
                trace.append((8, Fraction(ph)))
            return self._inner.add_phase(ph)

        def add_power(self, n):
            if depth[0] == 0:
                trace.append((9, int(n)))
            return self._inner.add_power(n)

        def __getattr__(self, k):
            return getattr(self._inner, k)

        def __setattr__(self, k, v):
            setattr(self._inner, k, v)
    b.graph.scalar = ScalarSpy(b.graph.scalar)
    nerr0 = [b.num_error_bits]

    def mapq(q):
        return 7 if q == -2 else q

    def mk(name):
        orig = origs[name]

        def w(bb, *a, **k):
            if depth[0] == 0:
                # error-bit increments made by the composite function itself since the last event
                trace.append((name, a, dict(k), bb.num_error_bits, bb.num_correlated_error_bits))
            depth[0] += 1
            try:
                return orig(bb, *a, **k)
            except Exception:
                return None
            finally:
                depth[0] -= 1
        return w
    try:
        for n in PRIMS:
            setattr(I, n, mk(n))
        fn = getattr(I, fname)
        err_before = b.num_error_bits
        try:
            fn(b, **kwargs)
        except Exception as e:
            trace.append(("EXC", type(e).__name__))
    finally:
        for n in PRIMS:
            setattr(I, n, origs[n])
    # normalise into LaneShow records
    out = []
    prim_err_increments = 0
    for ev in trace:
        if ev[0] == 8:
            q = ev[1] * 4
            out.append((8, [int(q) if q.denominator == 1 else float(q), 0, 0, 0]))
        elif ev[0] == 9:
            out.append((9, [ev[1]]))
        elif ev[0] == 10:
            out.append((10, ev[1]))
        elif ev[0] == 12:
            out.append((12, ev[1]))
        elif ev[0] == "EXC":
            out.append((98, [ev[1]]))
        else:
            name, a, k, nerr, ncorr = ev
            sig = list(inspect.signature(origs[name]).parameters)[1:]
            d = {p: inspect.signature(origs[name]).parameters[p].default for p in sig}
            d.update(dict(zip(sig, a)))
            d.update(k)
            if name in ("x_phase", "z_phase"):
                q4 = Fraction(d["phase"]) * 4
                out.append((0, [1 if name == "x_phase" else 0, mapq(d["qubit"]), int(q4) if q4.denominator == 1 else float(q4), 0, 0, 0]))
            elif name == "_error":
                ph = d["phase"]
                corr = ph.startswith("c")
                rel = int(ph[1:]) - (ncorr if corr else nerr)
                out.append((1, [1 if d["error_type"] == VertexType.X else 0, mapq(d["qubit"]), rel, int(corr)]))
            elif name == "h":
                out.append((2, [mapq(d["qubit"])]))
            elif name == "_cx_cz":
                cc = d["classically_controlled"]
                zcc = 0 if not cc else 1 + 2 * int(cc[0]) + int(cc[1])
                out.append((3, [int(d["is_cx"]), mapq(d["control"]), mapq(d["target"]), zcc]))
            elif name == "swap":
                out.append((4, [mapq(d["qubit1"]), mapq(d["qubit2"])]))
            elif name == "i":
                out.append((5, [mapq(d["qubit"])]))
            elif name == "_m":
                p = Fraction(d["p"]).limit_denominator(1 << 20)
                out.append((6, [mapq(d["qubit"]), p.numerator, p.denominator, int(bool(d["silent"])), int(bool(d["restore"]))]))
            elif name == "_r":
                out.append((7, [mapq(d["qubit"]), int(bool(d["perform_trace"]))]))
    return out, b.num_error_bits - err_before


def show_to_trace(records):
    """LaneShow records -> same normal form as python_trace (without the OBumpErr records, returned separately)"""
    out = []
    bump = 0
    for tag, vals in records:
        vals = list(vals)
        if tag == 11:
            bump += vals[0]
        elif tag == 10:
            kind = vals[0]
            nums = vals[1:]
            fr = [Fraction(nums[i], nums[i + 1]) for i in range(0, len(nums), 2)]
            out.append((10, ("model", kind, tuple(fr))))
        elif tag == 12:
            out.append((12, ("p", round(float(Fraction(vals[0], vals[1])), 12))))
        elif tag == 6:
            out.append((6, vals))
        else:
            out.append((tag, vals))
    return out, bump


def chan_table(kind, fr):
    """the table channels.py builds for the given constructor arguments (read from the running code)"""
    import tsim.noise.channels as C
    f = [float(x) for x in fr]
    if kind == 0:
        return tuple(round(float(v), 12) for v in C.error_probs(*f))
    if kind == 1:
        return tuple(round(float(v), 12) for v in C.pauli_channel_1_probs(*f))
    if kind == 2:
        return tuple(round(float(v), 12) for v in C.pauli_channel_2_probs(*f))
    raise ValueError(kind)


def traces_equal(py, model):
    (pt, pbump), (mt, mbump) = py, model
    if len(pt) != len(mt):
        return False
    for a, b in zip(pt, mt):
        if a[0] != b[0]:
            return False
        if a[0] == 10:
            # python appended fn(args); the model records (constructor, args): apply the running constructor
            _, kind, fr = b[1]
            if a[1][2] != chan_table(kind, fr):
                return False
        elif a[0] == 6:
            if a[1][0] != b[1][0] or Fraction(a[1][1], a[1][2]) != Fraction(b[1][1], b[1][2]) or a[1][3:] != b[1][3:]:
                return False
        elif list(a[1]) != list(b[1]) and a[1] != b[1]:
            return False
    # error-bit bookkeeping: increments by the composite function + one per noisy _m
    noisy_m = sum(1 for t in mt if t[0] == 6 and t[1][1] > 0)
    return pbump == mbump + noisy_m
