"""Exact output distributions, two independent ways.

1. `tsim_dist(circuit, det=False)`: the distribution the REAL tsim sampler draws from, read through the
   real sampler code by *forced sampling*: `jax.random.bernoulli` is replaced (from here, no source change)
   by a function that returns a preset bit per row and records the probability `p` it was called with.
   Running `sample_program` eagerly with one row per outcome gives every joint probability as the product of
   the conditionals the sampler actually used (real prev/p1 bookkeeping, parameter stacking, column
   reordering).  The noise side is the exact pushforward of `ChannelSampler.channels` through
   `signature_matrix`.  Result: dict outcome-tuple -> probability.

2. `ref_dist(text, det=False)`: an independent dense state-vector reference (numpy) for the Stim instruction
   set tsim supports (+ T, rotations, U3 via tags), branching exactly over measurement outcomes and Pauli
   channel outcomes.  Gate matrices come from the installed Stim (`gate_data(name).unitary_matrix`) and the
   README formulas.  It is the search oracle / Layer-S twin; small circuits only.
"""
from __future__ import annotations

import itertools
import math
import re
from fractions import Fraction

import numpy as np
import stim

# ----------------------------------------------------------------------------------
# 1. forced sampling through the real tsim sampler
# ----------------------------------------------------------------------------------


def channel_pushforward(channel_sampler) -> dict[tuple, float]:
    """exact distribution of the f-vector produced by ChannelSampler (independent channels, XOR of rows)"""
    sig = np.asarray(channel_sampler.signature_matrix).astype(np.uint8)
    nf = sig.shape[1]
    dist = {tuple([0] * nf): 1.0}
    for ch in channel_sampler.channels:
        probs = np.asarray(ch.probs, dtype=np.float64)
        nb = int(round(math.log2(len(probs))))
        new: dict[tuple, float] = {}
        for idx, p in enumerate(probs):
            if p == 0:
                continue
            v = np.zeros(nf, dtype=np.uint8)
            for i, col in enumerate(ch.unique_col_ids):
                if (idx >> i) & 1:
                    v ^= sig[col]
            for f, pf in dist.items():
                g = tuple(int(x) for x in (np.array(f, dtype=np.uint8) ^ v))
                new[g] = new.get(g, 0.0) + pf * p
        dist = new
    return dist


def unjitted_component_sampler(S):
    """the python function behind the jitted forwarder tsim.sampler._sample_component_jit (whatever its body is now);
    falls back to _sample_component when the forwarder is not a jax.jit wrapper"""
    return getattr(S._sample_component_jit, "__wrapped__", S._sample_component)


def forced_conditionals(sampler, f_assignments=None, max_outputs=14):
    """For each f assignment: array over all 2^n outcomes (itertools.product order) of the probability the real
    sampler assigns to that outcome. Returns (outcomes ndarray [2^n, n], {f: probs})."""
    import jax
    import jax.numpy as jnp
    import tsim.sampler as S

    prog = sampler._program
    nout = prog.num_outputs
    if nout > max_outputs:
        raise ValueError(f"{nout} outputs: too many for exhaustive forced sampling")
    nf = int(np.asarray(sampler._channel_sampler.signature_matrix).shape[1])
    outs = np.array(list(itertools.product([0, 1], repeat=nout)), dtype=bool).reshape(-1, nout)
    if f_assignments is None:
        f_assignments = [tuple(f) for f in itertools.product([0, 1], repeat=nf)]
    order = np.asarray(prog.output_order)
    res = {}
    orig = jax.random.bernoulli
    for f in f_assignments:
        f_params = jnp.tile(jnp.array(f, dtype=jnp.uint8).reshape(1, nf), (len(outs), 1))
        forced_cols = outs[:, order] if nout else outs
        state = {"j": 0, "p": np.ones(len(outs)), "bad": []}

        def fake(key, p=0.5, shape=None):
            j = state["j"]
            state["j"] += 1
            bits = forced_cols[:, j]
            pp = np.asarray(p, dtype=np.float64)
            # rows whose prefix already has probability 0 may see 0/0 -> nan; they contribute 0
            contrib = np.where(bits, pp, 1 - pp)
            contrib = np.where(state["p"] == 0, 0.0, contrib)
            # an excursion of a Bernoulli parameter outside [0,1] is weighted with the probability of the path so far, like every
            # other quantity of the properties (prev is a float32 difference: on a path whose exact probability is 0 and whose
            # float value is 1e-9, p1/prev is rounding residue and carries 1e-9 of probability mass at most)
            exc = np.where(np.isnan(contrib), np.inf, np.maximum(np.maximum(-contrib, contrib - 1.0), 0.0))
            with np.errstate(invalid="ignore"):
                mass = np.where(state["p"] > 0, np.where(np.isinf(exc), np.where(state["p"] > 1e-6, np.inf, 0.0), exc * state["p"]), 0.0)
            if np.any(mass > 1e-6):
                state["bad"].append((j, pp.tolist()))
            state["p"] = state["p"] * np.nan_to_num(contrib)
            return jnp.array(bits)

        # the real sample_program runs with the jitted wrapper of the autoregressive loop replaced by the python
        # function it wraps, so that bernoulli sees concrete probabilities; `evaluate` stays jitted
        jax.random.bernoulli = fake
        jit_orig = S._sample_component_jit
        S._sample_component_jit = unjitted_component_sampler(S)
        try:
            out = np.asarray(S.sample_program(prog, f_params, jax.random.key(0)))
        finally:
            jax.random.bernoulli = orig
            S._sample_component_jit = jit_orig
        if nout and not (out == outs).all():
            raise AssertionError("sample_program did not return the forced outcomes in program order")
        res[tuple(int(x) for x in f)] = (state["p"].copy(), state["bad"])
    return outs, res


def tsim_dist(circuit, det=False, seed=0, max_f=12):
    """exact joint distribution of tsim's measurement (or detector+observable) sampler for a tsim.Circuit"""
    sampler = circuit.compile_detector_sampler(seed=seed) if det else circuit.compile_sampler(seed=seed)
    fdist = channel_pushforward(sampler._channel_sampler)
    fs = [f for f, p in fdist.items() if p > 0]
    if len(fs) > 2 ** max_f:
        raise ValueError("too many f assignments")
    outs, res = forced_conditionals(sampler, fs)
    total = np.zeros(len(outs))
    bad = []
    for f in fs:
        p, b = res[f]
        total += fdist[f] * p
        bad += b
    dist = {tuple(int(x) for x in o): float(t) for o, t in zip(outs, total)}
    return dist, {"num_f": len(fs), "bad_bernoulli_params": bad, "num_outputs": outs.shape[1]}


# ----------------------------------------------------------------------------------
# 2. independent reference simulator
# ----------------------------------------------------------------------------------

_I2 = np.eye(2, dtype=complex)
_X = np.array([[0, 1], [1, 0]], dtype=complex)
_Y = np.array([[0, -1j], [1j, 0]], dtype=complex)
_Z = np.diag([1, -1]).astype(complex)
_H = np.array([[1, 1], [1, -1]], dtype=complex) / math.sqrt(2)
_PAULI = {"I": _I2, "X": _X, "Y": _Y, "Z": _Z}
# basis change B with B P B^dag = Z  (measure P = apply B, measure Z, apply B^dag)
_SDG = np.diag([1, -1j]).astype(complex)
_BASIS = {"Z": _I2, "X": _H, "Y": _H @ _SDG}


def rz(a):
    return np.diag([np.exp(-1j * a * np.pi / 2), np.exp(1j * a * np.pi / 2)])


def rx(a):
    c, s = np.cos(a * np.pi / 2), np.sin(a * np.pi / 2)
    return np.array([[c, -1j * s], [-1j * s, c]])


def ry(a):
    c, s = np.cos(a * np.pi / 2), np.sin(a * np.pi / 2)
    return np.array([[c, -s], [s, c]], dtype=complex)


def u3(t, p, l):
    c, s = np.cos(t * np.pi / 2), np.sin(t * np.pi / 2)
    return np.array([[c, -np.exp(1j * l * np.pi) * s], [np.exp(1j * p * np.pi) * s, np.exp(1j * (p + l) * np.pi) * c]])


_TAG_RE = re.compile(r"^(\w+)\((.*)\)$")


def parse_tag(tag):
    """independent reading of the parametric tags documented in the README"""
    m = _TAG_RE.match(tag)
    if not m:
        return None
    vals = {}
    for part in m.group(2).split(","):
        part = part.strip()
        mm = re.match(r"^(\w+)=([-+]?[\d.]+)\*pi$", part)
        if not mm:
            return None
        vals[mm.group(1)] = float(Fraction(mm.group(2)))
    return m.group(1), vals


class Branch:
    __slots__ = ("p", "psi", "rec", "fired")

    def __init__(self, p, psi, rec, fired=False):
        self.p, self.psi, self.rec, self.fired = p, psi, rec, fired


class RefSim:
    """state tensor psi[q0, q1, ...] over the qubits 0..n-1 of the circuit"""

    def __init__(self, n):
        self.n = n
        psi = np.zeros((2,) * n, dtype=complex)
        psi[(0,) * n] = 1
        self.branches = [Branch(1.0, psi, ())]
        self.detectors = []   # list of tuples of absolute record indices
        self.observables = {}  # idx -> list of absolute record indices
        self.pending_else = None  # probability mass still "no error yet" per branch is tracked via flag in rec? see E

    @staticmethod
    def app1(psi, U, q):
        return np.moveaxis(np.tensordot(U, psi, axes=([1], [q])), 0, q)

    @staticmethod
    def app2(psi, U4, a, b):
        # U4 little-endian in (a, b): index = a + 2 b
        U = np.asarray(U4, dtype=complex).reshape(2, 2, 2, 2)  # [b_out, a_out, b_in, a_in]
        out = np.tensordot(U, psi, axes=([2, 3], [b, a]))       # axes 0,1 = b_out, a_out
        return np.moveaxis(out, [0, 1], [b, a])

    def unitary1(self, U, q):
        for br in self.branches:
            br.psi = self.app1(br.psi, U, q)

    def unitary2(self, U, a, b):
        for br in self.branches:
            br.psi = self.app2(br.psi, U, a, b)

    def prune(self):
        self.branches = [b for b in self.branches if b.p > 1e-15]

    def measure(self, basis, q, invert=False, flip_p=0.0, reset=False, record=True, demolish_to=None):
        B = _BASIS[basis]
        new = []
        for br in self.branches:
            psi = self.app1(br.psi, B, q) if basis != "Z" else br.psi
            for outcome in (0, 1):
                sl = [slice(None)] * self.n
                sl[q] = outcome
                part = psi[tuple(sl)]
                pr = float(np.sum(np.abs(part) ** 2))
                if pr < 1e-15:
                    continue
                post = np.zeros_like(psi)
                if reset:
                    sl0 = list(sl)
                    sl0[q] = 0
                    post[tuple(sl0)] = part / math.sqrt(pr)
                else:
                    post[tuple(sl)] = part / math.sqrt(pr)
                post = self.app1(post, B.conj().T, q) if basis != "Z" else post
                if not record:
                    new.append(Branch(br.p * pr, post, br.rec, br.fired))
                    continue
                rep = outcome ^ int(invert)
                if flip_p > 0:
                    new.append(Branch(br.p * pr * (1 - flip_p), post, br.rec + (rep,), br.fired))
                    new.append(Branch(br.p * pr * flip_p, post.copy(), br.rec + (rep ^ 1,), br.fired))
                else:
                    new.append(Branch(br.p * pr, post, br.rec + (rep,), br.fired))
        self.branches = new
        self.prune()

    def measure_product(self, paulis, invert=False, flip_p=0.0):
        """paulis: list of (P, q). Projective measurement of the product observable."""
        new = []
        for br in self.branches:
            Ppsi = br.psi
            for P, q in paulis:
                Ppsi = self.app1(Ppsi, _PAULI[P], q)
            for outcome in (0, 1):
                proj = (br.psi + (1 - 2 * outcome) * Ppsi) / 2
                pr = float(np.sum(np.abs(proj) ** 2))
                if pr < 1e-15:
                    continue
                post = proj / math.sqrt(pr)
                rep = outcome ^ int(invert)
                if flip_p > 0:
                    new.append(Branch(br.p * pr * (1 - flip_p), post, br.rec + (rep,), br.fired))
                    new.append(Branch(br.p * pr * flip_p, post.copy(), br.rec + (rep ^ 1,), br.fired))
                else:
                    new.append(Branch(br.p * pr, post, br.rec + (rep,), br.fired))
        self.branches = new
        self.prune()

    def pauli_mixture(self, outcomes):
        """outcomes: list of (prob, [(P, q), ...]) incl. identity outcome; probabilities sum to 1"""
        new = []
        for br in self.branches:
            for pr, ops in outcomes:
                if pr <= 0:
                    continue
                psi = br.psi
                for P, q in ops:
                    if P != "I":
                        psi = self.app1(psi, _PAULI[P], q)
                new.append(Branch(br.p * pr, psi, br.rec, br.fired))
        self.branches = new
        self.prune()

    def feedback(self, P, lookback, q):
        for br in self.branches:
            if br.rec[lookback]:
                br.psi = self.app1(br.psi, _PAULI[P], q)


def _gate_matrix(name):
    return np.asarray(stim.gate_data(name).unitary_matrix, dtype=complex)


_PC2_ORDER = ["IX", "IY", "IZ", "XI", "XX", "XY", "XZ", "YI", "YX", "YY", "YZ", "ZI", "ZX", "ZY", "ZZ"]


def ref_run(text_or_circuit, max_branches=200000):
    """run the reference simulator; returns (branches, detectors, observables, num_measurements)"""
    c = text_or_circuit if isinstance(text_or_circuit, stim.Circuit) else stim.Circuit(text_or_circuit)
    c = c.flattened()
    n = max(c.num_qubits, 1)
    sim = RefSim(n)
    for ins in c:
        name = ins.name
        gd = stim.gate_data(name)
        targets = ins.targets_copy()
        args = ins.gate_args_copy()
        tag = ins.tag
        if name in ("TICK", "QUBIT_COORDS", "SHIFT_COORDS", "I_ERROR", "II_ERROR"):
            continue
        if name == "DETECTOR":
            nm = len(sim.branches[0].rec)
            sim.detectors.append(tuple(nm + t.value for t in targets))
            continue
        if name == "OBSERVABLE_INCLUDE":
            nm = len(sim.branches[0].rec)
            idx = int(args[0])
            sim.observables.setdefault(idx, [])
            for t in targets:
                if not t.is_measurement_record_target:
                    raise NotImplementedError("OBSERVABLE_INCLUDE with pauli target")
                sim.observables[idx].append(nm + t.value)
            continue
        if name == "MPAD":
            for t in targets:
                for br in sim.branches:
                    br.rec = br.rec + (t.value,)
            continue
        if name == "MPP":
            p = args[0] if args else 0.0
            cur, inv = [], False
            for i, t in enumerate(targets):
                if t.is_combiner:
                    continue
                P = "X" if t.is_x_target else "Y" if t.is_y_target else "Z"
                inv ^= t.is_inverted_result_target
                cur.append((P, t.value))
                if i + 1 >= len(targets) or not targets[i + 1].is_combiner:
                    sim.measure_product(cur, inv, p)
                    cur, inv = [], False
            continue
        if name in ("MXX", "MYY", "MZZ"):
            p = args[0] if args else 0.0
            P = name[1]
            for i in range(0, len(targets), 2):
                a, b = targets[i], targets[i + 1]
                sim.measure_product([(P, a.value), (P, b.value)], a.is_inverted_result_target ^ b.is_inverted_result_target, p)
            continue
        if name in ("M", "MX", "MY", "MR", "MRX", "MRY"):
            basis = "Z" if name in ("M", "MR") else name[-1]
            p = args[0] if args else 0.0
            for t in targets:
                sim.measure(basis, t.value, t.is_inverted_result_target, p, reset=name.startswith("MR"))
            continue
        if name in ("R", "RX", "RY"):
            basis = "Z" if name == "R" else name[-1]
            for t in targets:
                sim.measure(basis, t.value, reset=True, record=False)
            continue
        if name in ("X_ERROR", "Y_ERROR", "Z_ERROR"):
            P = name[0]
            for t in targets:
                sim.pauli_mixture([(1 - args[0], []), (args[0], [(P, t.value)])])
            continue
        if name == "DEPOLARIZE1":
            for t in targets:
                sim.pauli_mixture([(1 - args[0], [])] + [(args[0] / 3, [(P, t.value)]) for P in "XYZ"])
            continue
        if name == "PAULI_CHANNEL_1":
            for t in targets:
                sim.pauli_mixture([(1 - sum(args), [])] + [(a, [(P, t.value)]) for a, P in zip(args, "XYZ")])
            continue
        if name == "DEPOLARIZE2":
            for i in range(0, len(targets), 2):
                a, b = targets[i].value, targets[i + 1].value
                sim.pauli_mixture([(1 - args[0], [])] + [(args[0] / 15, [(pp[0], a), (pp[1], b)]) for pp in _PC2_ORDER])
            continue
        if name == "PAULI_CHANNEL_2":
            for i in range(0, len(targets), 2):
                a, b = targets[i].value, targets[i + 1].value
                sim.pauli_mixture([(1 - sum(args), [])] + [(pa, [(pp[0], a), (pp[1], b)]) for pa, pp in zip(args, _PC2_ORDER)])
            continue
        if name in ("E", "ELSE_CORRELATED_ERROR"):
            ops = [("X" if t.is_x_target else "Y" if t.is_y_target else "Z", t.value) for t in targets]
            new = []
            for br in sim.branches:
                fired = br.fired if name == "ELSE_CORRELATED_ERROR" else False
                if fired:
                    new.append(br)
                    continue
                psi = br.psi
                for P, q in ops:
                    psi = RefSim.app1(psi, _PAULI[P], q)
                new.append(Branch(br.p * (1 - args[0]), br.psi, br.rec, False))
                new.append(Branch(br.p * args[0], psi, br.rec, True))
            sim.branches = [b for b in new if b.p > 1e-15]
            continue
        # any other instruction resets the "else" chain bookkeeping only when a new E starts (handled above)
        if gd.is_unitary:
            if name == "S" and tag == "T":
                U = np.diag([1, np.exp(1j * np.pi / 4)])
                for t in targets:
                    sim.unitary1(U, t.value)
                continue
            if name == "S_DAG" and tag == "T":
                U = np.diag([1, np.exp(-1j * np.pi / 4)])
                for t in targets:
                    sim.unitary1(U, t.value)
                continue
            if name == "I" and tag:
                r = parse_tag(tag)
                if r is not None:
                    g, v = r
                    U = {"R_Z": lambda: rz(v["theta"]), "R_X": lambda: rx(v["theta"]), "R_Y": lambda: ry(v["theta"]),
                         "U3": lambda: u3(v["theta"], v["phi"], v["lambda"])}[g]()
                    for t in targets:
                        sim.unitary1(U, t.value)
                    continue
            U = _gate_matrix(name)
            if gd.is_single_qubit_gate:
                for t in targets:
                    sim.unitary1(U, t.value)
            else:
                for i in range(0, len(targets), 2):
                    a, b = targets[i], targets[i + 1]
                    if a.is_measurement_record_target or b.is_measurement_record_target:
                        # classically controlled Pauli: Stim's semantics for CX/CY/CZ rec q, XCZ q rec, YCZ q rec, CZ q rec
                        if name in ("CX", "CY", "CZ", "ZCX", "ZCY", "ZCZ", "CNOT") and a.is_measurement_record_target and not b.is_measurement_record_target:
                            P = {"CX": "X", "CNOT": "X", "ZCX": "X", "CY": "Y", "ZCY": "Y", "CZ": "Z", "ZCZ": "Z"}[name]
                            sim.feedback(P, a.value, b.value)
                        elif name in ("CZ", "ZCZ") and b.is_measurement_record_target and not a.is_measurement_record_target:
                            sim.feedback("Z", b.value, a.value)
                        elif name in ("XCZ", "YCZ") and b.is_measurement_record_target and not a.is_measurement_record_target:
                            sim.feedback(name[0], b.value, a.value)
                        else:
                            raise NotImplementedError(f"classical control pattern {ins}")
                    elif a.is_sweep_bit_target or b.is_sweep_bit_target:
                        pass  # sweep bits default to False: controlled Pauli does nothing
                    else:
                        sim.unitary2(U, a.value, b.value)
            if len(sim.branches) > max_branches:
                raise MemoryError("too many branches")
            continue
        raise NotImplementedError(f"reference simulator: unsupported instruction {name}")
        # unreachable
    return sim


def ref_dist(text_or_circuit, det=False, num_observables=None):
    """exact distribution of the measurement record (det=False) or of (detectors..., observables 0..K-1) (det=True)"""
    sim = ref_run(text_or_circuit)
    dist: dict[tuple, float] = {}
    if not det:
        for br in sim.branches:
            dist[br.rec] = dist.get(br.rec, 0.0) + br.p
        return dist
    c = text_or_circuit if isinstance(text_or_circuit, stim.Circuit) else stim.Circuit(text_or_circuit)
    K = c.num_observables if num_observables is None else num_observables
    for br in sim.branches:
        d = tuple(int(sum(br.rec[i] for i in det_) % 2) for det_ in sim.detectors)
        o = tuple(int(sum(br.rec[i] for i in sim.observables.get(k, [])) % 2) for k in range(K))
        dist[d + o] = dist.get(d + o, 0.0) + br.p
    return dist


def dist_diff(a: dict, b: dict) -> float:
    keys = set(a) | set(b)
    return max((abs(a.get(k, 0.0) - b.get(k, 0.0)) for k in keys), default=0.0)
