"""Random circuit generator for the distribution-level checks (C01, C02, C03, C19).
All choices come from the numpy Generator handed in (derived from VERIF_SEED)."""
from __future__ import annotations

import numpy as np

G1 = ["I", "X", "Y", "Z", "H", "S", "S_DAG", "SQRT_X", "SQRT_X_DAG", "SQRT_Y", "SQRT_Y_DAG", "SQRT_Z", "SQRT_Z_DAG",
      "C_XYZ", "C_ZYX", "H_XY", "H_YZ", "H_XZ"]
G2 = ["CX", "CNOT", "CY", "CZ", "SWAP", "ISWAP", "ISWAP_DAG", "SQRT_XX", "SQRT_XX_DAG", "SQRT_YY", "SQRT_YY_DAG", "SQRT_ZZ", "SQRT_ZZ_DAG",
      "XCX", "XCY", "XCZ", "YCX", "YCY", "YCZ", "ZCX", "ZCY", "ZCZ"]
HALF_ANGLES = ["0.5", "-0.5", "1.0", "1.5", "2.5", "-1.0", "0", "2.0"]
GENERIC_ANGLES = ["0.3", "-0.25", "0.125", "1.75", "0.7", "-1.3", "0.0625", "3.1"]
DYADIC = [0.125, 0.25, 0.5, 0.0625, 0.375, 1.0, 0.0, 0.75]
SMALL_DYADIC = [0.0625, 0.125, 0.03125, 0.25]


def _choice(rng, seq):
    return seq[int(rng.integers(0, len(seq)))]


class Gen:
    def __init__(self, rng, nq_max=4, max_meas=6, max_noise=0, max_generic=3, annotated=False, max_instr=18):
        self.rng = rng
        nq = int(rng.integers(1, nq_max + 1))
        self.qubits = sorted(int(x) for x in rng.choice(np.arange(0, 8), size=nq, replace=False))
        self.max_meas = max_meas
        self.max_noise = max_noise
        self.annotated = annotated
        self.max_instr = max_instr
        self.generic = [_choice(rng, GENERIC_ANGLES) for _ in range(int(rng.integers(0, max_generic + 1)))]
        self.nmeas = 0
        self.nnoise = 0
        self.lines: list[str] = []
        self.ndet = 0
        self.nobs = 0
        self.hist: dict[str, int] = {}

    def q(self):
        return int(_choice(self.rng, self.qubits))

    def q2(self):
        a, b = self.rng.choice(self.qubits, size=2, replace=False)
        return int(a), int(b)

    def angle(self):
        if self.generic and self.rng.random() < 0.5:
            return _choice(self.rng, self.generic)
        return _choice(self.rng, HALF_ANGLES)

    def bump(self, k):
        self.hist[k] = self.hist.get(k, 0) + 1

    def add(self, line, kind):
        self.lines.append(line)
        self.bump(kind)

    def unitary(self):
        r = self.rng.random()
        if r < 0.15:
            self.add(f"{_choice(self.rng, ['T', 'T_DAG'])} {self.q()}", "T")
        elif r < 0.3:
            g = _choice(self.rng, ["R_X", "R_Y", "R_Z"])
            self.add(f"{g}({self.angle()}) {self.q()}", "rotation")
        elif r < 0.36:
            self.add(f"U3({self.angle()}, {self.angle()}, {self.angle()}) {self.q()}", "U3")
        elif r < 0.7 or len(self.qubits) < 2:
            k = int(self.rng.integers(1, 3))
            self.add(f"{_choice(self.rng, G1)} " + " ".join(str(self.q()) for _ in range(k)), "clifford1")
        else:
            pairs = []
            for _ in range(int(self.rng.integers(1, 3))):
                pairs += list(self.q2())
            self.add(f"{_choice(self.rng, G2)} " + " ".join(map(str, pairs)), "clifford2")

    def noise_arg(self):
        return repr(_choice(self.rng, DYADIC))

    def measure(self, noisy_ok):
        if self.nmeas >= self.max_meas:
            return
        r = self.rng.random()
        arg = ""
        if noisy_ok and self.nnoise < self.max_noise and self.rng.random() < 0.5:
            arg = f"({_choice(self.rng, [0.125, 0.25, 0.5, 0.0625])!r})"
            self.nnoise += 1
        if r < 0.55:
            g = _choice(self.rng, ["M", "MX", "MY", "MZ", "MR", "MRX", "MRY", "MRZ"])
            k = int(self.rng.integers(1, 3))
            k = min(k, self.max_meas - self.nmeas)
            ts = [("!" if self.rng.random() < 0.3 else "") + str(self.q()) for _ in range(k)]
            self.add(f"{g}{arg} " + " ".join(ts), "measure" + ("-noisy" if arg else ""))
            self.nmeas += k
        elif r < 0.8:
            # MPP with mixed Paulis
            prods = []
            for _ in range(int(self.rng.integers(1, 3))):
                if self.nmeas >= self.max_meas:
                    break
                k = int(self.rng.integers(1, min(3, len(self.qubits)) + 1))
                qs = self.rng.choice(self.qubits, size=k, replace=False)
                prods.append("*".join(("!" if self.rng.random() < 0.25 else "") + _choice(self.rng, "XYZ") + str(int(q)) for q in qs))
                self.nmeas += 1
            if prods:
                self.add(f"MPP{arg} " + " ".join(prods), "MPP" + ("-noisy" if arg else ""))
        else:
            self.add(f"{_choice(self.rng, ['R', 'RX', 'RY', 'RZ'])} {self.q()}", "reset")

    def feedback(self):
        if self.nmeas == 0:
            return
        k = int(self.rng.integers(1, min(self.nmeas, 3) + 1))
        r = self.rng.random()
        if r < 0.6:
            self.add(f"{_choice(self.rng, ['CX', 'CY', 'CZ', 'ZCX', 'ZCY', 'ZCZ', 'CNOT'])} rec[-{k}] {self.q()}", "feedback")
        else:
            self.add(f"{_choice(self.rng, ['CZ', 'XCZ', 'YCZ'])} {self.q()} rec[-{k}]", "feedback")

    def noise(self):
        if self.nnoise >= self.max_noise:
            return
        self.nnoise += 1
        r = self.rng.random()
        if r < 0.3:
            self.add(f"{_choice(self.rng, ['X_ERROR', 'Y_ERROR', 'Z_ERROR'])}({self.noise_arg()}) {self.q()}", "pauli-error")
        elif r < 0.45:
            self.add(f"DEPOLARIZE1({_choice(self.rng, [0.125, 0.25, 0.75, 0.375])!r}) {self.q()}", "depolarize1")
        elif r < 0.6 and len(self.qubits) >= 2:
            a, b = self.q2()
            self.add(f"DEPOLARIZE2({_choice(self.rng, [0.25, 0.5, 0.9375, 0.46875])!r}) {a} {b}", "depolarize2")
        elif r < 0.75:
            # one-hot or generic arguments
            args = [0.0, 0.0, 0.0]
            if self.rng.random() < 0.5:
                args[int(self.rng.integers(0, 3))] = _choice(self.rng, [0.25, 0.5, 1.0])
            else:
                args = [_choice(self.rng, [0.0625, 0.125, 0.25]) for _ in range(3)]
            self.add("PAULI_CHANNEL_1(" + ", ".join(repr(a) for a in args) + f") {self.q()}", "pauli_channel_1")
        elif r < 0.87 and len(self.qubits) >= 2:
            args = [0.0] * 15
            if self.rng.random() < 0.6:
                args[int(self.rng.integers(0, 15))] = _choice(self.rng, [0.25, 0.5, 1.0])
            else:
                for i in self.rng.choice(15, size=3, replace=False):
                    args[int(i)] = _choice(self.rng, [0.0625, 0.125, 0.25])
            a, b = self.q2()
            self.add("PAULI_CHANNEL_2(" + ", ".join(repr(a_) for a_ in args) + f") {a} {b}", "pauli_channel_2")
        else:
            k = int(self.rng.integers(1, 3))
            for i in range(k):
                m = int(self.rng.integers(1, min(2, len(self.qubits)) + 1))
                qs = self.rng.choice(self.qubits, size=m, replace=False)
                name = "E" if i == 0 else "ELSE_CORRELATED_ERROR"
                self.add(f"{name}({_choice(self.rng, [0.25, 0.5, 0.125])!r}) " + " ".join(_choice(self.rng, "XYZ") + str(int(q)) for q in qs), "correlated")
                if self.rng.random() < 0.3:
                    self.unitary()

    def annotate(self):
        if self.nmeas == 0:
            return
        k = int(self.rng.integers(1, min(self.nmeas, 3) + 1))
        lbs = sorted({int(x) for x in self.rng.integers(1, self.nmeas + 1, size=k)})
        if self.rng.random() < 0.15 and lbs:
            lbs = lbs + [lbs[0]]   # repeated target
        ts = " ".join(f"rec[-{x}]" for x in lbs)
        if self.rng.random() < 0.5 and self.ndet < 3:
            self.add(f"DETECTOR {ts}", "detector")
            self.ndet += 1
        elif self.nobs < 4:
            idx = int(_choice(self.rng, [0, 1, 2, 3, 0, 1]))
            self.add(f"OBSERVABLE_INCLUDE({idx}) {ts}", "observable")
            self.nobs += 1

    def layout(self):
        r = self.rng.random()
        if r < 0.5:
            self.add("TICK", "layout")
        elif r < 0.75:
            self.add(f"QUBIT_COORDS({int(self.rng.integers(0, 5))}, 1) {self.q()}", "layout")
        else:
            self.add("SHIFT_COORDS(0, 1)", "layout")

    def build(self):
        n = int(self.rng.integers(3, self.max_instr + 1))
        # state preparation so that outcomes are not trivially deterministic
        for q in self.qubits:
            if self.rng.random() < 0.7:
                self.add(f"{_choice(self.rng, ['H', 'RX', 'RY', 'SQRT_X', 'H_YZ'])} {q}", "prep")
        for _ in range(n):
            r = self.rng.random()
            if r < 0.45:
                self.unitary()
            elif r < 0.7:
                self.measure(noisy_ok=self.max_noise > 0)
            elif r < 0.8:
                self.feedback()
            elif r < 0.9 and self.max_noise > 0:
                self.noise()
            elif r < 0.95:
                self.layout()
            elif self.annotated:
                self.annotate()
        # final measurements so there is something to sample
        rest = min(self.max_meas - self.nmeas, len(self.qubits))
        if rest > 0 and (self.nmeas == 0 or self.rng.random() < 0.8):
            qs = self.qubits[:rest]
            self.add(f"{_choice(self.rng, ['M', 'MX', 'MY'])} " + " ".join(map(str, qs)), "measure")
            self.nmeas += len(qs)
        if self.annotated:
            for _ in range(int(self.rng.integers(1, 4))):
                self.annotate()
            if self.ndet + self.nobs == 0:
                self.add("DETECTOR rec[-1]", "detector")
        return "\n".join(self.lines)


def gen(rng, **kw):
    g = Gen(rng, **kw)
    text = g.build()
    return text, g.hist, bool(g.generic)
