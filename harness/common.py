"""Shared machinery of the /verif checks.

A check is `bin/check <ID> <quick|thorough>`; it

  1. regenerates the translated Coq model files from /repo/src (translators in /verif/translate),
  2. builds the property's Coq cone (full .vo build through coq_makefile/make),
  3. runs the property's correspondence suite (model vs running implementation),
  4. lints the development, collects `Print Assumptions`,
  5. writes /verif/evidence/<ID>.json and prints VIOLATION / KNOWN-FINDING lines.

A broken translation / proof / correspondence is turned into a concrete failing input
by the property's own `search`; see DESIGN.md section 2.5.
"""
from __future__ import annotations

import fcntl
import hashlib
import importlib
import json
import os
import random
import re
import shutil
import subprocess
import sys
import time
import traceback
from pathlib import Path

# root of the verification tree: the directory this file lives in (so a snapshot of /verif is self-contained)
VERIF = Path(__file__).resolve().parents[1]
# VERIF_REPO lets a developer point the checks at a scratch worktree of /repo (never used by registered commands)
REPO = Path(os.environ.get("VERIF_REPO") or "/repo")
REPO_SRC = REPO / "src" / "tsim"
BUILD = VERIF / "build" if str(REPO) == "/repo" else VERIF / "build" / ("alt-" + re.sub(r"[^A-Za-z0-9]+", "_", str(REPO)))
COQSRC = VERIF / "coq"
COQBUILD = BUILD / "coq"
GEN = COQBUILD / "gen"
# evidence/replay of runs against a scratch worktree (VERIF_REPO) never overwrite the registered ones
REPLAY = VERIF / "replay" if str(REPO) == "/repo" else BUILD / "replay"
EVIDENCE = VERIF / "evidence" if str(REPO) == "/repo" else BUILD / "evidence"
KNOWN = VERIF / "known_findings.json"
PY = "/venv/bin/python"
NPROC = os.cpu_count() or 4

LINT_RE = re.compile(
    r"\b(Admitted|admit|Axiom|Axioms|Parameter|Parameters|Conjecture|Admit Obligations|"
    r"Unset Guard Checking|Unset Positivity Checking|Unset Universe Checking|bypass_check|"
    r"type-in-type|impredicative-set)\b"
)
STMT_RE = re.compile(
    r"^\s*(?:Local\s+|Global\s+|Program\s+)?(Theorem|Lemma|Corollary|Example|Fact|Proposition|Remark)\s+([A-Za-z_][A-Za-z0-9_']*)",
    re.M,
)

KERNEL_TB = [
    "Coq 8.16.1 kernel incl. vm_compute (no native_compute); full .vo build via coq_makefile/make (never -vos)",
]


def sh(cmd, timeout=None, cwd=None, env=None, input=None):
    """Run a shell command, return (rc, stdout+stderr)."""
    try:
        p = subprocess.run(
            cmd, shell=isinstance(cmd, str), cwd=cwd, env=env, input=input,
            stdout=subprocess.PIPE, stderr=subprocess.STDOUT, timeout=timeout, text=True,
        )
        return p.returncode, p.stdout
    except subprocess.TimeoutExpired as e:
        out = e.stdout.decode() if isinstance(e.stdout, bytes) else (e.stdout or "")
        return 124, out + f"\n[timeout after {timeout}s]"


def write_if_changed(path: Path, text: str) -> bool:
    path.parent.mkdir(parents=True, exist_ok=True)
    if path.exists() and path.read_text() == text:
        return False
    path.write_text(text)
    return True


class Lock:
    def __init__(self, name="build"):
        BUILD.mkdir(parents=True, exist_ok=True)
        self.path = BUILD / f".{name}.lock"

    def __enter__(self):
        self.f = open(self.path, "w")
        fcntl.flock(self.f, fcntl.LOCK_EX)
        return self

    def __exit__(self, *a):
        fcntl.flock(self.f, fcntl.LOCK_UN)
        self.f.close()


# ----------------------------------------------------------------------------------
# translators
# ----------------------------------------------------------------------------------

def run_translator(name: str) -> tuple[bool, str]:
    """Run /verif/translate/<name>.py: module exposes OUT (file name under gen/) and
    translate(repo_src: Path) -> str.  Fail-closed: on any exception the gen file is
    replaced by a stub that makes every dependent proof fail, and (False, reason) is returned."""
    GEN.mkdir(parents=True, exist_ok=True)
    try:
        mod = importlib.import_module(f"translate.{name}")
        importlib.reload(mod)
        text = mod.translate(REPO_SRC)
        write_if_changed(GEN / mod.OUT, text)
        return True, ""
    except Exception as e:  # noqa
        reason = f"{type(e).__name__}: {e}"
        try:
            out = importlib.import_module(f"translate.{name}").OUT
        except Exception:
            out = f"Gen_{name}.v"
        stub = "(* TRANSLATION FAILED (fail-closed): " + reason.replace("*)", "* )") + " *)\nDefinition TRANSLATION_FAILED := tt.\n"
        write_if_changed(GEN / out, stub)
        return False, reason


ALL_TRANSLATORS: list[str] = []  # filled from translate/__init__.py


def all_translators() -> list[str]:
    """every module translate/<name>.py that defines OUT (auto-discovered)"""
    names = []
    for f in sorted((VERIF / "translate").glob("*.py")):
        if f.stem.startswith("_") or f.stem == "pyast":
            continue
        if re.search(r"^OUT\s*=", f.read_text(), flags=re.M):
            names.append(f.stem)
    return names


def translator_outputs() -> dict[str, str]:
    out = {}
    for n in all_translators():
        m = re.search(r"^OUT\s*=\s*[\"']([^\"']+)[\"']", (VERIF / "translate" / f"{n}.py").read_text(), flags=re.M)
        if m:
            out[n] = m.group(1)
    return out


COQPROJECT_HEADER = """-Q . TV
-arg -w -arg -notation-overridden,-deprecated-hint-without-locality,-deprecated-instance-without-locality,-undeclared-scope,-deprecated-syntactic-definition,-opaque-let,-deprecated-hint-rewrite-without-locality,-deprecated-tactic-notation
"""


def write_coqproject():
    """_CoqProject = header + every .v under coq/ (hand-written) + gen/<OUT> of every translator."""
    files = sorted(str(p.relative_to(COQSRC)) for p in COQSRC.rglob("*.v") if "gen" not in p.relative_to(COQSRC).parts[:1])
    # gen/Gen_stim_vocab.v is written at run time by the C12 check (probe of the installed Stim), not by a translator
    gens = sorted({"gen/" + o for o in translator_outputs().values()} | {"gen/Gen_stim_vocab.v"})
    write_if_changed(COQBUILD / "_CoqProject", COQPROJECT_HEADER + "\n".join(gens + files) + "\n")


# ----------------------------------------------------------------------------------
# Coq build
# ----------------------------------------------------------------------------------

def sync_coq():
    COQBUILD.mkdir(parents=True, exist_ok=True)
    rc, out = sh(
        ["rsync", "-a", "--include=*/", "--include=*.v", "--exclude=*",
         str(COQSRC) + "/", str(COQBUILD) + "/"]
    )
    if rc != 0:
        raise RuntimeError("rsync failed: " + out)
    # remove build copies of .v files that no longer exist in the source tree (except gen/)
    for p in COQBUILD.rglob("*.v"):
        rel = p.relative_to(COQBUILD)
        if rel.parts[0] in ("gen", "cases") or rel.name.startswith("Assum_"):
            continue
        if not (COQSRC / rel).exists():
            for ext in (".v", ".vo", ".vok", ".vos", ".glob"):
                q = p.with_suffix(ext)
                if q.exists():
                    q.unlink()
    write_coqproject()


def coq_make(targets: list[str], timeout=1500) -> tuple[bool, str]:
    """make the given .vo targets (paths relative to coq/), all translators having run."""
    with Lock("build"):
        sync_coq()
        # every gen file named in _CoqProject must exist (stub if its translator has not run)
        proj = (COQBUILD / "_CoqProject").read_text().split()
        for f in proj:
            if f.startswith("gen/") and not (COQBUILD / f).exists():
                nm = Path(f).stem
                write_if_changed(COQBUILD / f, f"(* not generated yet *)\nDefinition TRANSLATION_MISSING_{nm} := tt.\n")
        mk = COQBUILD / "Makefile"
        if (not mk.exists()) or mk.stat().st_mtime < (COQBUILD / "_CoqProject").stat().st_mtime:
            rc, out = sh("coq_makefile -f _CoqProject -o Makefile", cwd=COQBUILD, timeout=120)
            if rc != 0:
                return False, out
        rc, out = sh(["make", f"-j{NPROC}", "-k"] + targets, cwd=COQBUILD, timeout=timeout)
        return rc == 0, out


def coqc_file(path: Path, timeout=300) -> tuple[int, str]:
    return sh(["coqc", "-Q", ".", "TV", str(path.relative_to(COQBUILD))], cwd=COQBUILD, timeout=timeout)


def failed_files(make_log: str) -> list[str]:
    """names of .v files whose compilation failed, from make -k output"""
    bad = []
    for m in re.finditer(r'File "\./([^"]+\.v)", line (\d+)', make_log):
        if m.group(1) not in bad:
            bad.append(m.group(1))
    for m in re.finditer(r"\*\*\* \[[^\]]*?:\s*\d+:\s*([^\]\s]+\.vo)\]", make_log):
        f = m.group(1)[:-1]
        if f not in bad:
            bad.append(f)
    return bad


def statements(vfile: Path) -> list[str]:
    if not vfile.exists():
        return []
    txt = re.sub(r"\(\*.*?\*\)", "", vfile.read_text(), flags=re.S)
    return [m.group(2) for m in STMT_RE.finditer(txt)]


def lint(files: list[Path]) -> list[str]:
    hits = []
    for f in files:
        if not f.exists():
            continue
        txt = re.sub(r"\(\*.*?\*\)", "", f.read_text(), flags=re.S)
        for i, line in enumerate(txt.splitlines(), 1):
            if LINT_RE.search(line):
                hits.append(f"{f}:{i}: {line.strip()[:120]}")
    return hits


def print_assumptions(module: str, theorems: list[str], tag: str) -> dict[str, str]:
    """compile a throw-away file printing the assumptions of the given theorems of TV.<module>"""
    if not theorems:
        return {}
    body = f"Require Import TV.{module}.\n" + "".join(
        f'Goal True. idtac "@@BEGIN {t}". exact I. Qed.\nPrint Assumptions {t}.\n' for t in theorems
    ) + 'Goal True. idtac "@@END". exact I. Qed.\n'
    p = COQBUILD / f"Assum_{tag}.v"
    p.write_text(body)
    with Lock("build"):
        rc, out = coqc_file(p, timeout=600)
    for ext in (".vo", ".vok", ".vos", ".glob"):
        q = p.with_suffix(ext)
        if q.exists():
            q.unlink()
    res = {}
    if rc != 0:
        return {t: "ERROR: " + out[-400:] for t in theorems}
    chunks = re.split(r"@@BEGIN (\S+)", out)
    for i in range(1, len(chunks) - 1, 2):
        txt = chunks[i + 1].split("@@END")[0].strip()
        res[chunks[i]] = re.sub(r"\s+", " ", txt)
    return res


# ----------------------------------------------------------------------------------
# known findings
# ----------------------------------------------------------------------------------

def load_known(pid: str) -> dict[str, dict]:
    """known_findings.json plus known_findings.d/*.json (same format; merged)"""
    findings = []
    if KNOWN.exists():
        findings += json.loads(KNOWN.read_text()).get("findings", [])
    d = VERIF / "known_findings.d"
    if d.is_dir():
        for f in sorted(d.glob("*.json")):
            findings += json.loads(f.read_text()).get("findings", [])
    return {f["key"]: f for f in findings if f.get("property") == pid and f.get("status") == "known"}


# ----------------------------------------------------------------------------------
# the check context
# ----------------------------------------------------------------------------------

class Ctx:
    def __init__(self, pid: str, tier: str):
        self.pid = pid
        self.tier = tier
        self.seed = int(os.environ.get("VERIF_SEED", "0") or 0)
        self.rng = random.Random(self.seed * 1000003 + int(hashlib.sha1(pid.encode()).hexdigest()[:6], 16))
        self.t0 = time.time()
        self.violations: list[dict] = []
        self.known_hits: list[dict] = []
        self.known = load_known(pid)
        self.cov: dict = {}
        self.assumptions: list[str] = []
        self.trusted: list[str] = list(KERNEL_TB)
        self.obligation_names: list[str] = []
        self.discharged_names: list[str] = []
        self.coq_files: list[str] = []
        self.broken: list[str] = []   # broken ties / proofs (names), before search
        self.log_lines: list[str] = []
        self.samples: list = []
        self.evaluations = 0
        self.nontrivial: set = set()
        self.hist: dict[str, int] = {}

    # -- logging ----------------------------------------------------------------
    def log(self, *a):
        s = " ".join(str(x) for x in a)
        self.log_lines.append(s)
        print(f"[{self.pid}] {s}", flush=True)

    @property
    def quick(self):
        return self.tier == "quick"

    def np_rng(self):
        import numpy as np
        return np.random.default_rng(self.rng.getrandbits(63))

    # -- model build ------------------------------------------------------------
    def translate(self, names: list[str]) -> list[tuple[str, str]]:
        """run translators; returns list of (name, reason) that failed"""
        fails = []
        with Lock("build"):
            sync_coq()
            for n in names:
                ok, why = run_translator(n)
                if not ok:
                    fails.append((n, why))
                    self.log(f"translator {n} FAILED (fail-closed): {why}")
        return fails

    def coq(self, files: list[str], timeout=1500) -> tuple[bool, list[str], str]:
        """build the .vo of each given .v (relative to coq/); returns (ok, failed_files, log).
        Records obligations (= statements closed by Qed in those files and their
        Proofs/Model cone given explicitly by the caller)."""
        self.coq_files = list(dict.fromkeys(self.coq_files + files))
        ok, log = coq_make([f + "o" for f in files], timeout=timeout)
        bad = [] if ok else failed_files(log)
        if not ok and not bad:
            bad = ["<make>"]
        for f in files:
            names = [f"{f}:{s}" for s in statements(COQBUILD / f)]
            self.obligation_names += [n for n in names if n not in self.obligation_names]
            vo = COQBUILD / (f + "o")
            vf = COQBUILD / f
            if vo.exists() and vo.stat().st_mtime >= vf.stat().st_mtime and f not in bad:
                self.discharged_names += [n for n in names if n not in self.discharged_names]
        if not ok:
            self.log("coq build FAILED in:", bad)
            self.log(log[-1500:])
        return ok, bad, log

    def collect_assumptions(self, prop_module: str, prop_file: str):
        thms = statements(COQBUILD / prop_file)
        thms = [t for t in thms]
        res = print_assumptions(prop_module, thms, self.pid)
        for t, a in res.items():
            self.trusted.append(f"Print Assumptions {t}: {a}")
        return res

    def lint(self):
        files = [COQSRC / f for f in self.coq_files] + [COQBUILD / f for f in self.coq_files if f.startswith("gen/")]
        hits = lint(files)
        for h in hits:
            self.log("LINT:", h)
        return hits

    # -- coverage ---------------------------------------------------------------
    def count(self, key=None, nontrivial=True, bucket: str | None = None, n=1):
        self.evaluations += n
        if nontrivial and key is not None:
            self.nontrivial.add(key if isinstance(key, (str, int, tuple)) else json.dumps(key, sort_keys=True, default=str))
        if bucket:
            self.hist[bucket] = self.hist.get(bucket, 0) + n

    def sample(self, obj, limit=6):
        if len(self.samples) < limit:
            self.samples.append(obj)

    # -- violations -------------------------------------------------------------
    def violation(self, key: str, what: str, replay: dict | None = None, no_failing_input=False):
        """Report a violation.  `key` identifies the failing input / call site (matched against
        known_findings.json).  `replay` is written to the replay file."""
        if any(v["key"] == key for v in self.violations) or any(v["key"] == key for v in self.known_hits):
            return
        rec = {"key": key, "what": what, "no_failing_input": no_failing_input}
        if key in self.known and not no_failing_input:
            self.known_hits.append(rec)
            print(f"KNOWN-FINDING: property={self.pid} {key}: {what}", flush=True)
            return
        REPLAY.mkdir(parents=True, exist_ok=True)
        path = REPLAY / f"{self.pid}-{re.sub(r'[^A-Za-z0-9_.-]+', '_', key)[:80]}.json"
        path.write_text(json.dumps({"property": self.pid, "key": key, "what": what, "replay": replay,
                                    "no_failing_input_found": no_failing_input}, indent=1, default=str))
        rec["path"] = str(path)
        self.violations.append(rec)
        if no_failing_input and getattr(self, "defer_no_input", False):
            # the quick tier escalates to the thorough search before it reports "no failing input found" (harness/main.py)
            rec["deferred"] = True
            return
        self.print_violation(rec)

    def print_violation(self, rec):
        tail = " no-failing-input-found" if rec.get("no_failing_input") else ""
        print(f"VIOLATION property={self.pid} replay={rec['path']}{tail}", flush=True)
        print(f"   ({rec['key']}: {rec['what'][:300]})", flush=True)

    # -- evidence ---------------------------------------------------------------
    def finish(self, rule: str, explanation: str = "", assumptions: list[str] | None = None, extra: dict | None = None):
        cov = {
            "obligations": len(self.obligation_names),
            "discharged": len(self.discharged_names),
            "checker_cmd": "cd /verif/build/coq && coq_makefile -f _CoqProject -o Makefile && make -j16 "
                           + " ".join(f + "o" for f in self.coq_files) + "   (coqc 8.16.1, full .vo build)",
            "trusted_base": self.trusted,
            "evaluations": self.evaluations,
            "distinct_nontrivial": len(self.nontrivial),
            "rule": rule,
            "samples": self.samples if self.samples else [{"obligations": self.obligation_names[:8]}],
            "explanation": explanation,
            "input_distribution": self.hist,
            "obligation_names": self.obligation_names,
            "undischarged": [n for n in self.obligation_names if n not in self.discharged_names],
            "broken_ties": self.broken,
            "known_findings_hit": [k["key"] for k in self.known_hits],
        }
        if extra:
            cov.update(extra)
        cov.update(self.cov)
        ev = {
            "property_id": self.pid,
            "tier": self.tier,
            "seed": self.seed,
            "level": "proof",
            "coverage": cov,
            "assumptions": assumptions or [],
            "wall_s": round(time.time() - self.t0, 2),
            "violations": len(self.violations),
        }
        EVIDENCE.mkdir(exist_ok=True)
        (EVIDENCE / f"{self.pid}.json").write_text(json.dumps(ev, indent=1, default=str))
        self.log(f"done: obligations={cov['obligations']} discharged={cov['discharged']} evaluations={self.evaluations} "
                 f"nontrivial={len(self.nontrivial)} violations={len(self.violations)} known={len(self.known_hits)} "
                 f"wall={ev['wall_s']}s")
        return 1 if self.violations else 0


def standard_model_phase(ctx: Ctx, translators: list[str], coq_files: list[str], prop_module: str, prop_file: str) -> bool:
    """steps 1,2,4 of a check. Returns True when translation, build, lint are all fine.
    Otherwise the broken items are in ctx.broken and the caller runs its search."""
    fails = ctx.translate(translators)
    for n, why in fails:
        ctx.broken.append(f"translator:{n}: {why}")
    ok, bad, log = ctx.coq(coq_files)
    if not ok:
        for b in bad:
            ctx.broken.append(f"coq:{b}")
    hits = ctx.lint()
    for h in hits:
        ctx.broken.append(f"lint:{h}")
    from harness import fingerprints
    fingerprints.check(ctx)
    if ok:
        ctx.collect_assumptions(prop_module, prop_file)
    return not ctx.broken


def report_broken_without_input(ctx: Ctx):
    """called after the search found no concrete failing input"""
    if ctx.broken and not ctx.violations:
        ctx.violation(
            "broken-obligation",
            "proof obligation / tie no longer checks: " + "; ".join(ctx.broken)[:1500],
            {"broken": ctx.broken},
            no_failing_input=True,
        )
