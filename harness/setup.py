"""setup_cmd: run every translator and build every .v file listed in coq/_CoqProject (full .vo build)."""
import sys

from harness.common import COQBUILD, Lock, all_translators, coq_make, run_translator, sync_coq


def main():
    with Lock("build"):
        sync_coq()
        for n in all_translators():
            ok, why = run_translator(n)
            print(f"translator {n}: {'ok' if ok else 'FAILED ' + why}", flush=True)
    files = [f for f in (COQBUILD / "_CoqProject").read_text().split() if f.endswith(".v")]
    ok, log = coq_make([f + "o" for f in files], timeout=3000)
    print(log[-3000:])
    print("setup:", "ok" if ok else "BUILD FAILED (individual checks will report which property is affected)")
    return 0


if __name__ == "__main__":
    sys.exit(main())
