"""Circuit generator and small helpers shared by the C06 and C11 checks (not a shared framework file).

All randomness comes from the `random.Random` handed in (derived from ctx.rng, i.e. VERIF_SEED).
Circuits are built from disjoint blocks of <= `bs_max` qubits (so connected components stay small enough to enumerate
every output prefix) which are interleaved line by line, so the whole circuit may have tens of qubits.
Block styles:
  ghz   GHZ/graph-state preparation followed by rounds of (diagonal non-Clifford gates, noise, Z measurements of a
        subset) -- many mutually correlated outputs in one component;
  rand  random Clifford + few non-Clifford gates + noise with measurement rounds (M MX MY MR MRX MZ, resets) in between;
  syn   repetition-code style syndrome extraction with ancilla measure-resets, data noise, T/rotations on data.
Non-Clifford gates are drawn from a per-block family mix: T-like (T, T_DAG), single-axis rotations with arbitrary
angles, U3 -- so blocks mix T-like and arbitrary-angle phases.
"""
from __future__ import annotations

import hashlib

import numpy as np

G1 = ["H", "S", "S_DAG", "SQRT_X", "SQRT_X_DAG", "SQRT_Y", "SQRT_Y_DAG", "X", "Y", "Z", "C_XYZ", "C_ZYX", "H_YZ", "H_XY"]
G2 = ["CX", "CZ", "CY", "SWAP", "ISWAP", "ISWAP_DAG", "SQRT_XX", "SQRT_YY", "SQRT_ZZ", "XCY", "XCZ", "YCX", "SQRT_ZZ_DAG", "XCX", "YCZ"]
ANG = ["0.3", "-0.15", "1.7", "0.0625", "0.41", "0.3", "0.3"]   # repeated entries: same-angle families occur often
FAMILIES = [["t"], ["t", "rot"], ["rot", "u3"], ["t", "rot", "u3"], ["rot"]]


def noise_line(rng, qs):
    k = rng.random()
    q = rng.choice(qs)
    if k < 0.3:
        return f"X_ERROR({rng.choice(['0.125', '0.25', '0.5'])}) {q}"
    if k < 0.5:
        return f"Z_ERROR(0.25) {q}"
    if k < 0.6:
        return f"Y_ERROR(0.0625) {q}"
    if k < 0.8:
        return f"DEPOLARIZE1(0.25) {q}"
    if k < 0.9 and len(qs) > 1:
        a, b = rng.sample(qs, 2)
        return f"DEPOLARIZE2(0.125) {a} {b}"
    return f"PAULI_CHANNEL_1(0.125, 0.0625, 0.25) {q}"


def nonclifford_line(rng, qs, kinds):
    k = rng.choice(kinds)
    q = rng.choice(qs)
    if k == "t":
        return f"{rng.choice(['T', 'T_DAG'])} {q}"
    if k == "rot":
        return f"{rng.choice(['R_Z', 'R_X', 'R_Y'])}({rng.choice(ANG)}) {q}"
    return f"U3({rng.choice(ANG)}, {rng.choice(ANG)}, {rng.choice(ANG)}) {q}"


def gen_block(rng, qs, out_cap, style, nc_budget, noise_budget):
    lines: list[str] = []
    nout = 0
    kinds = rng.choice(FAMILIES)
    budget = {"nc": nc_budget, "noise": noise_budget}

    def gates(g):
        for _ in range(g):
            r = rng.random()
            if r < 0.4:
                lines.append(f"{rng.choice(G1)} {rng.choice(qs)}")
            elif r < 0.7 and len(qs) > 1:
                a, b = rng.sample(qs, 2)
                lines.append(f"{rng.choice(G2)} {a} {b}")
            elif r < 0.85 and budget["nc"] > 0:
                budget["nc"] -= 1
                lines.append(nonclifford_line(rng, qs, kinds))
            elif budget["noise"] > 0:
                budget["noise"] -= 1
                lines.append(noise_line(rng, qs))

    if style == "ghz":
        lines.append(f"H {qs[0]}")
        for a, b in zip(qs, qs[1:]):
            lines.append(f"CX {a} {b}")
        rmax = max(1, out_cap // len(qs))
        rounds = rmax if rng.random() < 0.5 else rng.randint(1, rmax)
        for r in range(rounds):
            for _ in range(rng.randint(0, 3)):
                x = rng.random()
                if x < 0.4 and budget["nc"] > 0:
                    budget["nc"] -= 1
                    q = rng.choice(qs)
                    lines.append(rng.choice([f"T {q}", f"R_Z({rng.choice(ANG)}) {q}", f"T_DAG {q}"]))
                elif x < 0.8 and budget["noise"] > 0:
                    budget["noise"] -= 1
                    lines.append(noise_line(rng, qs))
                else:
                    lines.append(f"{rng.choice(['S', 'Z', 'S_DAG'])} {rng.choice(qs)}")
            sub = [q for q in qs if rng.random() < 0.8] or [qs[0]]
            for q in sub:
                if nout < out_cap:
                    basis = "M" if (r < rounds - 1 or rng.random() < 0.6) else rng.choice(["MX", "MY"])
                    lines.append(f"{basis} {q}")
                    nout += 1
    elif style == "syn" and len(qs) >= 3:
        nd = (len(qs) + 1) // 2
        data, anc = qs[:nd], qs[nd:]
        if rng.random() < 0.5:
            lines.append(f"H {data[0]}")
            for a, b in zip(data, data[1:]):
                lines.append(f"CX {a} {b}")
        rounds = rng.randint(1, 3)
        for r in range(rounds):
            for _ in range(rng.randint(0, 2)):
                if budget["noise"] > 0:
                    budget["noise"] -= 1
                    lines.append(noise_line(rng, data))
            if budget["nc"] > 0 and rng.random() < 0.6:
                budget["nc"] -= 1
                lines.append(nonclifford_line(rng, data, kinds))
            for j, a in enumerate(anc):
                if j + 1 < len(data) and nout < out_cap - len(data):
                    lines.append(f"CX {data[j]} {a}")
                    lines.append(f"CX {data[j + 1]} {a}")
                    lines.append(f"MR {a}")
                    nout += 1
        for q in data:
            if nout < out_cap:
                lines.append(f"M {q}")
                nout += 1
    else:
        for q in qs:
            r = rng.random()
            if r < 0.3:
                lines.append(f"RX {q}")
            elif r < 0.4:
                lines.append(f"RY {q}")
            elif r < 0.6:
                lines.append(f"H {q}")
        gates(rng.choice([2, 5, 10]))
        rounds = rng.randint(1, 4)
        for r in range(rounds):
            sub = [q for q in qs if rng.random() < 0.7] or [qs[0]]
            for q in sub:
                if nout < out_cap:
                    op = rng.choice(["M", "M", "MX", "MY", "MR", "MRX", "MZ"])
                    lines.append(f"{op} {q}")
                    nout += 1
            if rng.random() < 0.15:
                lines.append(f"{rng.choice(['R', 'RX', 'RY'])} {rng.choice(qs)}")
            gates(rng.choice([0, 1, 2, 4]))
    return lines


def gen_circuit(rng, nq, *, bs_max=6, out_cap=12, nc_max=3, noise_max=4, detectors=False,
                styles=("ghz", "rand", "rand", "syn")) -> str:
    qs = list(range(nq))
    blocks = []
    i = 0
    while i < nq:
        b = rng.randint(1, bs_max) if rng.random() < 0.6 else rng.randint(max(1, bs_max - 2), bs_max)
        blocks.append(qs[i:i + b])
        i += b
    per = [gen_block(rng, b, out_cap, rng.choice(list(styles)), rng.choice([0, 0, 1, 2, nc_max]),
                     rng.choice([0, 1, 2, noise_max])) for b in blocks]
    lines: list[str] = []
    idx = [0] * len(per)
    nmeas = 0
    MEAS = ("M ", "MX ", "MY ", "MZ ", "MR ", "MRX ", "MRY ", "MRZ ")
    ndet = 0
    while True:
        live = [k for k in range(len(per)) if idx[k] < len(per[k])]
        if not live:
            break
        k = rng.choice(live)
        ln = per[k][idx[k]]
        lines.append(ln)
        idx[k] += 1
        if ln.startswith(MEAS):
            nmeas += 1
            if detectors and nmeas >= 1 and rng.random() < 0.45 and ndet < 10:
                look = sorted(rng.sample(range(1, min(nmeas, 4) + 1), rng.randint(1, min(nmeas, 2))))
                lines.append("DETECTOR " + " ".join(f"rec[-{j}]" for j in look))
                ndet += 1
    if detectors:
        if nmeas >= 1:
            lines.append(f"OBSERVABLE_INCLUDE(0) rec[-1]" + (f" rec[-{min(nmeas, 3)}]" if nmeas >= 3 else ""))
        if ndet == 0 and nmeas >= 1:
            lines.append("DETECTOR rec[-1]")
    return "\n".join(lines)


def circuit_key(text: str) -> str:
    return hashlib.sha1(text.encode()).hexdigest()[:10]


def all_bits(n: int) -> np.ndarray:
    """all 0/1 rows of length n, big-endian (row index r has bit j = (r >> (n-1-j)) & 1): the children of prefix p are
    rows 2p and 2p+1 one level down, and the order matches Coq's `all_bits`."""
    if n == 0:
        return np.zeros((1, 0), dtype=bool)
    idx = np.arange(2 ** n)
    return ((idx[:, None] >> (n - 1 - np.arange(n))[None, :]) & 1).astype(bool)


def count_nonclifford(text: str) -> tuple[int, int]:
    """(number of T-like gates, number of arbitrary-angle gates) in the program text"""
    t = a = 0
    for ln in text.splitlines():
        w = ln.split("(")[0].split()[0] if ln.strip() else ""
        if w in ("T", "T_DAG"):
            t += len(ln.split()) - 1
        elif w in ("R_Z", "R_X", "R_Y", "U3"):
            a += 1
    return t, a
