"""Write /verif/MANIFEST.json from harness/manifest_data.py (keeps the manifest valid at all times)."""
import json
import subprocess
from pathlib import Path

import importlib
import re

from harness.manifest_data import CLAIMED, NOT_YET, PROPS, READY

# a property module may carry its own manifest entry: MANIFEST = dict(text=, note=, technique=, design_ref=)
for _f in sorted(Path("/verif/harness/props").glob("c[0-9][0-9].py")):
    _pid = _f.stem.upper()
    _m = re.search(r"^MANIFEST\s*=", _f.read_text(), flags=re.M)
    if _m and _pid not in CLAIMED:
        _ns: dict = {}
        _src = _f.read_text()
        _start = _m.start()
        # evaluate only the MANIFEST = dict(...) statement
        import ast as _ast
        for _node in _ast.parse(_src).body:
            if isinstance(_node, _ast.Assign) and any(isinstance(t, _ast.Name) and t.id == "MANIFEST" for t in _node.targets):
                try:
                    CLAIMED[_pid] = eval(compile(_ast.Expression(_node.value), str(_f), "eval"), {"dict": dict})
                except NameError:
                    CLAIMED[_pid] = importlib.import_module(f"harness.props.{_f.stem}").MANIFEST

try:
    from harness.manifest_data import NOT_APPLICABLE
except ImportError:
    NOT_APPLICABLE = {}


def repo_hook_commits():
    p = Path("/verif/hooks_commits.txt")
    return [l.split()[0] for l in p.read_text().splitlines() if l.strip()] if p.exists() else []


def main():
    for k in list(CLAIMED):
        if k not in READY:
            del CLAIMED[k]
    checks = []
    for pid in PROPS:
        if pid not in CLAIMED:
            continue
        c = CLAIMED[pid]
        checks.append({
            "property_id": pid,
            "quick_cmd": f"bin/check {pid} quick",
            "thorough_cmd": f"bin/check {pid} thorough",
            "evidence_file": f"/verif/evidence/{pid}.json",
            "replay_cmd_template": f"bin/check {pid} --replay {{path}}",
            "engine": "coq-model",
            "level_claimed": {"category": "proof", "text": c["text"], "design_ref": c.get("design_ref", "DESIGN.md 4")},
            "level_note": c["note"],
            "technique": c["technique"],
        })
    man = {
        "version": 1,
        "setup_cmd": "bin/setup",
        "hooks": {
            "guard": "TSIM_VERIF",
            "enable": "checks run /venv/bin/python with PYTHONPATH=/repo/src and TSIM_VERIF=1; no source hook is needed "
                      "(all instrumentation is monkey-patching from the harness), so no hook commit exists",
            "baseline_off_cmd": "cd /repo && env -u TSIM_VERIF /venv/bin/python -m pytest -ra -q -p no:cacheprovider --timeout=900 --continue-on-collection-errors",
            "source_commits": repo_hook_commits(),
            "add_only": True,
        },
        "engines": [{
            "name": "coq-model",
            "path": "/verif/coq",
            "serves_properties": [p for p in PROPS if p in CLAIMED],
            "kind_free_text": "Coq 8.16.1 development (Base/Spec/Model/Proofs/Props + gen/ regenerated from /repo/src by "
                              "/verif/translate) built with coq_makefile/make; executable model evaluated by vm_compute for the "
                              "correspondence with the running implementation (harness/)",
        }],
        "checks": checks,
        "notes": "Technique family: machine-checked proof in Rocq/Coq. See DESIGN.md; known defects in known_findings.json.",
        "not_applicable": [
            {"property_id": p, "reason": NOT_APPLICABLE.get(p, NOT_YET)} for p in PROPS if p not in CLAIMED
        ],
    }
    Path("/verif/MANIFEST.json").write_text(json.dumps(man, indent=1) + "\n")
    print("wrote MANIFEST.json with", len(checks), "checks")


if __name__ == "__main__":
    main()
