"""Numeric tie of the hand-modelled primitives (_m, _r, _error, record-controlled _cx_cz, spiders, h) of
Model/Lane.v to pyzx: for small fragments, the matrix of tsim's SINGLE-COPY diagram with its phase variables
rec[i], m[i] set to r^, s^ equals the Fourier sum of the model's Kraus matrices,

      T(r^, s^, e) = sum_{r, s} (-1)^{r^.r + s^.s} K_model(r, s, e)        (exactly, scalars included)

because a labelled Z spider Z(r^ pi) = sum_b (-1)^{r^ b} |b><b| and the model reads it as the projector |r><r|.
Error variables e are ordinary phases on both sides."""
from __future__ import annotations

import itertools
from collections import defaultdict
from fractions import Fraction

import numpy as np

from harness import coqrun as cq
from harness.circmodel import IMPORTS, circuit_to_coq, ep_value

FRAGMENTS = [
    # (text, lanes that exist with an open input before the fragment)
    "I 0\nM 0", "I 0\nM !0", "I 0\nMX 0", "I 0\nMY !0", "I 0\nM(0.125) 0", "I 0\nMX(0.25) !0",
    "I 0\nMR 0", "I 0\nMR !0", "I 0\nMRX 0", "I 0\nMRY !0", "I 0\nMR(0.125) 0", "I 0\nMRY(0.25) !0",
    "I 0\nR 0", "I 0\nRX 0", "I 0\nRY 0", "R 0", "RX 0", "RY 0", "M 0", "MR 0", "MX !0",
    "I 0\nH 0\nS 0\nM 0\nH 0", "I 0 1\nM 0\nCX rec[-1] 1", "I 0 1\nMX 0\nCZ 1 rec[-1]", "I 0 1\nM 1\nXCZ 0 rec[-1]",
    "I 0 1\nM 0\nCY rec[-1] 1\nYCZ 0 rec[-1]",
    "I 0\nX_ERROR(0.25) 0", "I 0\nY_ERROR(0.25) 0", "I 0\nZ_ERROR(0.25) 0", "I 0\nDEPOLARIZE1(0.25) 0",
    "I 0 1\nDEPOLARIZE2(0.25) 0 1", "I 0 1\nPAULI_CHANNEL_2(0.0625,0,0,0,0,0,0.125,0,0,0,0,0,0,0,0) 1 0",
    "I 0 1\nE(0.25) X0 Y1\nELSE_CORRELATED_ERROR(0.5) Z1",
    "I 0 1\nMPP X0*Z1", "I 0 1\nMPP !Y0*Y1", "I 0\nMPP(0.125) Z0", "I 0 1\nMPP X0\nMPP Z1*Z0",
    "I 0 1\nSWAP 0 1\nM 0\nR 1", "I 0\nT 0\nSQRT_X 0\nMR 0\nH 0",
]


def tsim_single_copy(text, vals):
    import tsim
    from tsim.core.parse import parse_stim_circuit
    built = parse_stim_circuit(tsim.Circuit(text)._stim_circ)
    g = built.graph.copy()
    for v in list(g.vertices()):
        ph = g.phase(v)
        for p in g.get_params(v):
            ph += Fraction(vals[p])
        g.set_phase(v, ph, clearParams=True)
    g.normalize()
    return np.asarray(g.to_tensor()), built


def fragment_tie(ctx) -> int:
    """returns number of fragments compared; appends to ctx.broken on disagreement"""
    import tsim
    terms, metas = [], []
    for text in FRAGMENTS:
        c = tsim.Circuit(text)._stim_circ
        term, n, slots, qmap = circuit_to_coq(c)
        # lanes with an open input in the raw diagram: those created by ensure_lane (first vertex still a BOUNDARY);
        # lanes created by a reset start with an X spider and have no input
        from pyzx_param.utils import VertexType
        from tsim.core.parse import parse_stim_circuit
        built0 = parse_stim_circuit(c)
        open_lanes = [(qmap[q] if q != -2 else n - 1) for q, v in built0.first_vertex.items() if built0.graph.type(v) == VertexType.BOUNDARY]
        ex = "[" + "; ".join("true" if i in open_lanes else "false" for i in range(n)) + "]"
        terms.append(
            f"match build {n - 1}%nat {term} with None => None | Some st =>\n"
            f"  let ops := pops st in\n"
            f"  let s0 := mkL (tabulate (dim {n}%nat) (fun i => if Nat.eqb i 0 then p1 else p0)) p1 {ex} (repeat CZc {n}%nat) 0 0 0 0 [] [] [] true in\n"
            f"  let cnt := run {n}%nat (mkB [] [] []) ops s0 in\n"
            f"  Some (nrec cnt, nsil cnt, nerr cnt,\n"
            f"        map (fun e => map (fun s => map (fun r => map (fun j =>\n"
            f"              showv (final_vec (run {n}%nat (mkB r s e) ops (mkL (tabulate (dim {n}%nat) (fun i => if Nat.eqb i j then p1 else p0)) p1 {ex} (repeat CZc {n}%nat) 0 0 0 0 [] [] [] true))))\n"
            f"              (seq 0 (dim {n}%nat))) (bitvecs (nrec cnt))) (bitvecs (nsil cnt))) (bitvecs (nerr cnt))) end")
        metas.append((text, n, open_lanes, qmap))
    vals = cq.eval_terms("fragtie", IMPORTS, terms, timeout=900)
    compared = 0
    for (text, n, open_lanes, qmap), v in zip(metas, vals):
        if v is None:
            ctx.broken.append(f"correspondence:fragment `{text}`: model rejects")
            continue
        nr, ns, ne, table = v[1]
        # model Kraus K[e][s][r][j] = column j (dense vector over n lanes incl. aux)
        for e_idx, e_bits in enumerate(itertools.product([0, 1], repeat=ne)):
            e_bits = e_bits[::-1] if False else tuple((e_idx >> i) & 1 for i in range(ne))
            for rh in range(2 ** nr):
                for sh in range(2 ** ns):
                    valsd = defaultdict(int)
                    for i in range(nr):
                        valsd[f"rec[{i}]"] = (rh >> i) & 1
                    for i in range(ns):
                        valsd[f"m[{i}]"] = (sh >> i) & 1
                    for i in range(ne):
                        valsd[f"e{i}"] = e_bits[i]
                    T, built = tsim_single_copy(text, valsd)
                    # Fourier sum of the model
                    acc = None
                    for s in range(2 ** ns):
                        for r in range(2 ** nr):
                            sign = (-1) ** (bin(r & rh).count("1") + bin(s & sh).count("1"))
                            cols = table[e_idx][s][r]
                            M = np.array([[ep_value(x, (0, 0, 0)) for x in col] for col in cols]).T   # rows = out index, cols = in basis j
                            acc = sign * M if acc is None else acc + sign * M
                    # compare as tensors: tsim tensor axes = inputs (qubit order) then outputs; reduce model to open lanes
                    ok = compare_tensor(T, acc, n, open_lanes, built, qmap)
                    compared += 1
                    if not ok:
                        ctx.broken.append(f"correspondence:fragment `{text.replace(chr(10), '; ')}` rec^={rh} m^={sh} e={e_bits}: "
                                          f"pyzx single-copy tensor differs from the Fourier sum of the model's Kraus matrices")
                        return compared
    return compared


def compare_tensor(T, M, n, open_lanes, built, qmap):
    """T: pyzx tensor with axes [outputs..., inputs...] (as pyzx orders them); M: dense 2^n x 2^n model matrix (little endian lanes).
    Inputs exist only for open lanes (others start in |0> inside the diagram: column j must have those bits 0)."""
    inv = {v: k for k, v in qmap.items()}
    # the lanes that have an output at the end: every lane that exists in built.last_vertex
    out_lanes = sorted(qmap[q] if q != -2 else n - 1 for q in built.last_vertex)
    in_lanes = sorted(open_lanes)
    # pyzx orders inputs/outputs by qubit coordinate; aux lane -2 comes first
    def order(lanes):
        return sorted(lanes, key=lambda l: (-2 if l == n - 1 and (n - 1) not in qmap.values() else inv.get(l, l)))
    in_o, out_o = order(in_lanes), order(out_lanes)
    T = np.asarray(T)
    if T.ndim != len(in_o) + len(out_o):
        return False
    Mt = M.reshape((2,) * n + (2,) * n)  # wrong shape order guard below
    # M[out_index, in_index], index = sum bit_l 2^l  -> tensor with axes lane n-1..0 for out then lane n-1..0 for in
    Mt = M.reshape((2,) * (2 * n))
    def axis_out(l):
        return n - 1 - l
    def axis_in(l):
        return n + (n - 1 - l)
    ref = np.zeros((2,) * (len(in_o) + len(out_o)), dtype=complex)
    for inb in np.ndindex(*(2,) * len(in_o)):
        for outb in np.ndindex(*(2,) * len(out_o)):
            idx = [0] * (2 * n)
            for l, b in zip(in_o, inb):
                idx[axis_in(l)] = b
            for l, b in zip(out_o, outb):
                idx[axis_out(l)] = b
            # lanes without output must not carry amplitude in bit 1 (they do not exist): take bit 0
            ref[tuple(outb) + tuple(inb)] = Mt[tuple(idx)]
    return np.allclose(T, ref, atol=1e-7)
