"""Shared engine of the distribution-level checks (C01, C02, C03, C19): for each generated circuit compare
   dt = distribution the REAL tsim sampler uses (forced sampling, every joint outcome),
   dr = independent reference simulator (Stim semantics),
   dm = distribution of the Coq model (Model/Parse.build + lane semantics, evaluated by vm_compute).
dt != dr  -> violation with the (shrunk) circuit as replay.   dm != dt -> broken tie (correspondence)."""
from __future__ import annotations

import time

import numpy as np

from harness.circmodel import model_dist, model_eval
from harness.exactdist import dist_diff, ref_dist, tsim_dist

MODEL_FILES = ["Base/EP.v", "Base/EPSound.v", "Model/Lane.v", "Spec/RotGates.v", "Spec/Born.v", "gen/Gen_instructions.v",
               "gen/Gen_stim_gates.v", "gen/Gen_channel_tables.v", "Model/GateCheck.v", "Model/InstrCheck.v", "Model/Parse.v",
               "Model/LaneShow.v", "Proofs/GateProofs.v", "Proofs/InstrProofs.v", "Proofs/LaneFingerprints.v"]
MODEL_TRANSLATORS = ["instructions", "stim_gates", "channel_tables"]


def model_usable(ctx) -> bool:
    bad = ("translator:", "Lane.v", "Gen_", "Base/", "GateCheck", "InstrCheck", "Parse.v", "Born.v", "RotGates")
    return not any(any(k in b for k in bad) for b in ctx.broken)


def tolerance(generic: bool) -> float:
    return 1e-5 if generic else 1e-6


def shrink_text(text: str, still_bad) -> str:
    lines = text.split("\n")
    changed = True
    while changed and len(lines) > 1:
        changed = False
        for i in range(len(lines) - 1, -1, -1):
            cand = lines[:i] + lines[i + 1:]
            try:
                if still_bad("\n".join(cand)):
                    lines = cand
                    changed = True
                    break
            except Exception:
                continue
    return "\n".join(lines)


def impl_vs_ref(text: str, det: bool, tol: float):
    """returns (diff, dt, dr, info) ; raises if tsim rejects"""
    import tsim
    c = tsim.Circuit(text)
    dt, info = tsim_dist(c, det=det)
    dr = ref_dist(c._stim_circ, det=det)
    return dist_diff(dt, dr), dt, dr, info


def elab_expected(text: str) -> bool:
    """texts the elaboration of Proofs/ParseElab.v is meant to cover: everything the parse model reads"""
    return True


def run_cases(ctx, cases, det: bool, label: str, use_model=True, model_max=None, deadline=None, elab=False):
    """cases: list of (text, hist, generic).  Reports violations / broken ties on ctx. Returns stats."""
    import tsim
    stats = {"circuits": 0, "max_diff_impl_ref": 0.0, "max_diff_model_impl": 0.0, "model_compared": 0, "model_skipped": 0}
    keep = []
    for text, hist, generic in cases:
        if deadline and time.time() > deadline:
            break
        tol = tolerance(generic)
        try:
            d, dt, dr, info = impl_vs_ref(text, det, tol)
        except NotImplementedError:
            continue
        except Exception as e:
            ctx.violation(f"{label}-raises:" + text.replace("\n", ";")[:50], f"tsim raised {e!r} on a circuit over the supported instruction set",
                          {"text": text, "det": det})
            continue
        stats["circuits"] += 1
        for k, v in hist.items():
            ctx.hist[k] = ctx.hist.get(k, 0) + v
        nontrivial = len([p for p in dt.values() if p > 1e-9]) > 1
        ctx.count((label, text), nontrivial=nontrivial, bucket=f"{label}-circuits")
        stats["max_diff_impl_ref"] = max(stats["max_diff_impl_ref"], d)
        if info["bad_bernoulli_params"]:
            ctx.violation(f"{label}-bernoulli:" + text.replace("\n", ";")[:50], "a conditional probability p1/prev used by the sampler lies outside [0,1] or is nan",
                          {"text": text, "det": det, "bad": info["bad_bernoulli_params"][:3]})
        if d > tol:
            def bad(t):
                return impl_vs_ref(t, det, tol)[0] > tol
            small = shrink_text(text, bad)
            dd, dt2, dr2, _ = impl_vs_ref(small, det, tol)
            ctx.violation(f"{label}:" + small.replace("\n", ";")[:70],
                          f"sampler distribution differs from the reference by {dd:.3g} on some joint outcome",
                          {"text": small, "det": det, "tsim": {str(k): v for k, v in dt2.items() if v > 1e-12},
                           "reference": {str(k): v for k, v in dr2.items() if v > 1e-12}})
            continue
        if len(ctx.samples) < 4:
            ctx.sample({"circuit": text, "outcomes_with_positive_probability": len([p for p in dt.values() if p > 1e-9]),
                        "max_abs_diff_vs_reference": d})
        keep.append((text, dt, generic))
    if use_model and model_usable(ctx) and keep:
        sub = keep if model_max is None else keep[:model_max]
        try:
            res = model_eval([tsim.Circuit(t)._stim_circ for t, _, _ in sub], f"{ctx.pid.lower()}_{label}_model", elab=elab)
        except Exception as e:
            ctx.broken.append(f"correspondence:model evaluation failed: {e!r}"[:400])
            res = []
        for (text, dt, generic), r in zip(sub, res):
            if "skip" in r:
                stats["model_skipped"] += 1
                continue
            if not r.get("accept") or not r.get("ok"):
                ctx.broken.append(f"correspondence:model rejects a circuit tsim accepts: {text!r}"[:300])
                continue
            try:
                dm = model_dist(r, det)
            except AssertionError as e:
                ctx.broken.append(f"correspondence:model distribution undefined ({e}) on {text!r}"[:300])
                continue
            if elab:
                exp = elab_expected(text)
                key = "elab_covered" if r.get("covered") else ("elab_not_covered_expected" if not exp else "elab_NOT_COVERED_UNEXPECTEDLY")
                stats[key] = stats.get(key, 0) + 1
                if exp and not r.get("covered"):
                    ctx.broken.append(f"correspondence:the parse model's lane program is no longer the lane program of the elaborated circuit "
                                      f"(C01_parsed_text_is_kraus_product does not apply) on {text!r}"[:400])
            dd = dist_diff(dm, dt)
            stats["model_compared"] += 1
            stats["max_diff_model_impl"] = max(stats["max_diff_model_impl"], dd)
            if dd > tolerance(generic):
                ctx.broken.append(f"correspondence:model distribution differs from the sampler's by {dd:.3g} on {text!r}"[:400])
    return stats
