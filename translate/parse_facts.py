"""core/parse.py::parse_stim_circuit + core/instructions.py (GATE_TABLE, signatures, _cx_cz)  ->  gen/Gen_parse_facts.v

FACTS, not code (DESIGN.md 2.3 A / 4.C12): which names the parser skips, which it special-cases and what each
special branch reads from a `stim.GateTarget` (attribute tests in order, how the value is used, whether the
parenthesised arguments reach the gate function), the shape of the generic dispatch (which target attributes are
turned into `invert=` / `classically_controlled=`, which keyword each of the three calls passes), the GATE_TABLE
rows, per gate function its parameters (name, has-default, used-in-body), the way `classically_controlled` is
forwarded down to `_cx_cz`, and the record-editing rejection in `_cx_cz`.

Fail-closed: every statement of `parse_stim_circuit` and of the `_cx_cz` classical-control block must match one of
the shapes below, anything else raises Unsupported (= tie broken, the check then searches for a failing row).

Supported shapes inside `for instruction in stim_circuit.flattened():`
  assert not isinstance(instruction, stim.CircuitRepeatBlock)
  name = instruction.name
  if <name-cond>: continue                                       -> skipped names
  if name == "S" and instruction.tag == "T": name = "T" elif ... -> tag renames (tsim extension, recorded)
  if name == "I" and instruction.tag: ...                        -> parametric tags (must read only `.value`)
  if <name-cond>: <special body>; continue                       -> special branch (see _special)
  if name not in GATE_TABLE: raise ValueError(...)               -> unknown names are rejected
  gate_func, num_qubits = GATE_TABLE[name]
  for t in instruction.targets_copy(): if [not] t.<attr>: raise  -> dispatch guards
  targets = [t.value for t in instruction.targets_copy()]
  invert = [<attr-or> for t in instruction.targets_copy()]
  is_classically_controlled = [<attr-or> for t in instruction.targets_copy()]
  args = instruction.gate_args_copy()
  for i_target in range(0, len(targets), num_qubits): chunk/cc_chunk slices, assert, the 3-way call
where <name-cond> is  name == "A" | name == "A" or name == "B" | name in ["A", ...].
"""
from __future__ import annotations

import ast
from pathlib import Path

from translate.pyast import Unsupported, body_wo_doc, coq_string, functions, parse, toplevel_assign

OUT = "Gen_parse_facts.v"

TATTR = {
    "is_qubit_target": "AQubit",
    "is_inverted_result_target": "AInverted",
    "is_measurement_record_target": "ARecord",
    "is_sweep_bit_target": "ASweep",
    "is_combiner": "ACombiner",
    "is_x_target": "APX",
    "is_y_target": "APY",
    "is_z_target": "APZ",
}
PAULI_OF_ATTR = {"is_x_target": "X", "is_y_target": "Y", "is_z_target": "Z"}
# how the callee of a special branch uses the target values it is given
SINKS = {"detector": "SinkRecord", "observable_include": "SinkRecord", "correlated_error": "SinkQubitPauli",
         "mpp": "SinkQubitPauli", "tick": "SinkNone"}


def _same(node: ast.AST, template: str) -> bool:
    t = ast.parse(template).body[0]
    if isinstance(t, ast.Expr) and not isinstance(node, ast.Expr):
        t = t.value
    return ast.dump(node) == ast.dump(t)


def _u(n: ast.AST) -> str:
    return ast.unparse(n)


def _name_cond(test: ast.expr) -> list[str] | None:
    """name == "A" | name == "A" or name == "B" | name in [..]  ->  list of names"""
    if isinstance(test, ast.Compare) and len(test.ops) == 1 and isinstance(test.left, ast.Name) and test.left.id == "name":
        c = test.comparators[0]
        if isinstance(test.ops[0], ast.Eq) and isinstance(c, ast.Constant) and isinstance(c.value, str):
            return [c.value]
        if isinstance(test.ops[0], ast.In) and isinstance(c, (ast.List, ast.Tuple, ast.Set)):
            if all(isinstance(e, ast.Constant) and isinstance(e.value, str) for e in c.elts):
                return [e.value for e in c.elts]
        return None
    if isinstance(test, ast.BoolOp) and isinstance(test.op, ast.Or):
        out: list[str] = []
        for v in test.values:
            r = _name_cond(v)
            if r is None:
                return None
            out += r
        return out
    return None


def _target_attr(e: ast.expr, var: str | None = None) -> str | None:
    """`<var>.<attr>` with attr a known GateTarget predicate -> attr"""
    if isinstance(e, ast.Attribute) and isinstance(e.value, ast.Name) and (var is None or e.value.id == var) and e.attr in TATTR:
        return e.attr
    return None


def _attr_or(e: ast.expr, var: str) -> list[str]:
    """t.a | t.a or t.b  -> [a, b]"""
    a = _target_attr(e, var)
    if a:
        return [a]
    if isinstance(e, ast.BoolOp) and isinstance(e.op, ast.Or):
        out = []
        for v in e.values:
            out += _attr_or(v, var)
        return out
    raise Unsupported("target predicate outside `t.<is_*>` / or-of-those: " + _u(e))


def _targets_iter(e: ast.expr, known_lists: set[str]) -> bool:
    s = _u(e)
    return s == "instruction.targets_copy()" or s in known_lists or any(s == f"enumerate({k})" for k in known_lists) \
        or s == "enumerate(instruction.targets_copy())"


def _value_comprehension(e: ast.expr) -> bool:
    return _u(e) in ("[t.value for t in instruction.targets_copy()]",)


def _gate_target_attrs_read(nodes: list[ast.AST]) -> set[str]:
    out = set()
    for n in nodes:
        for x in ast.walk(n):
            if isinstance(x, ast.Attribute) and (x.attr in TATTR or x.attr in ("value", "pauli_type", "qubit_value")):
                out.add(x.attr)
            elif isinstance(x, ast.Attribute) and x.attr.startswith("is_") and x.attr not in TATTR:
                raise Unsupported(f"unknown GateTarget predicate {x.attr}")
    return out


def _guard(st: ast.stmt, var: str) -> str | None:
    """if t.<a>: raise  -> RuleRaiseIf ; if not t.<a>: raise -> RuleRaiseUnless ; if t.<a>: continue -> RuleSkipIf"""
    if not (isinstance(st, ast.If) and not st.orelse and len(st.body) == 1):
        return None
    neg = False
    test = st.test
    if isinstance(test, ast.UnaryOp) and isinstance(test.op, ast.Not):
        neg, test = True, test.operand
    a = _target_attr(test, var)
    if a is None:
        return None
    if isinstance(st.body[0], ast.Raise):
        return f"({'RuleRaiseUnless' if neg else 'RuleRaiseIf'} {TATTR[a]})"
    if isinstance(st.body[0], ast.Continue) and not neg:
        return f"(RuleSkipIf {TATTR[a]})"
    return None


def _pauli_chain(st: ast.stmt, var: str) -> bool:
    """if t.is_x_target: <"X"> elif t.is_y_target: <"Y"> elif t.is_z_target: <"Z"> else: raise"""
    seen = []
    cur = st
    while isinstance(cur, ast.If):
        a = _target_attr(cur.test, var)
        if a not in PAULI_OF_ATTR or len(cur.body) != 1:
            return False
        consts = [x.value for x in ast.walk(cur.body[0]) if isinstance(x, ast.Constant) and isinstance(x.value, str)]
        if consts != [PAULI_OF_ATTR[a]]:
            raise Unsupported(f"Pauli chain maps {a} to {consts}")
        seen.append(a)
        if len(cur.orelse) == 1 and isinstance(cur.orelse[0], ast.If):
            cur = cur.orelse[0]
        else:
            if not (len(cur.orelse) == 1 and isinstance(cur.orelse[0], ast.Raise)):
                raise Unsupported("Pauli chain without a final `else: raise`")
            break
    if sorted(seen) != sorted(PAULI_OF_ATTR):
        raise Unsupported(f"Pauli chain tests {seen}")
    return True


class _Special:
    def __init__(self, names):
        self.names = names
        self.rules: list[str] = []
        self.sink = None
        self.reads_inverted = False
        self.args_consumed = False
        self.value_read = False
        self.combiner_joins = False
        self.tainted: set[str] = set()   # local names that carry gate_args_copy()
        self.target_lists: set[str] = set()

    def is_tainted(self, e: ast.expr) -> bool:
        for x in ast.walk(e):
            if isinstance(x, ast.Attribute) and x.attr == "gate_args_copy":
                return True
            if isinstance(x, ast.Name) and x.id in self.tainted:
                return True
        return False


def _assign_target_name(st: ast.stmt) -> tuple[str, ast.expr] | None:
    if isinstance(st, ast.Assign) and len(st.targets) == 1 and isinstance(st.targets[0], ast.Name):
        return st.targets[0].id, st.value
    if isinstance(st, ast.AnnAssign) and isinstance(st.target, ast.Name) and st.value is not None:
        return st.target.id, st.value
    return None


def _sink_call(sp: _Special, call: ast.Call):
    if not (isinstance(call.func, ast.Name) and call.func.id in SINKS):
        raise Unsupported("special branch calls " + _u(call.func))
    if call.keywords:
        raise Unsupported("keyword arguments in " + _u(call))
    if not call.args or _u(call.args[0]) != "b":
        raise Unsupported("sink call without b: " + _u(call))
    sink = SINKS[call.func.id]
    if sp.sink not in (None, sink):
        raise Unsupported("two different sinks in one branch")
    sp.sink = sink
    sp.callee = call.func.id
    for a in call.args[1:]:
        if sp.is_tainted(a):
            sp.args_consumed = True


def _special_loop(sp: _Special, loop: ast.For):
    # loop variable
    if isinstance(loop.target, ast.Name):
        var = loop.target.id
    elif isinstance(loop.target, ast.Tuple) and len(loop.target.elts) == 2 and all(isinstance(x, ast.Name) for x in loop.target.elts):
        var = loop.target.elts[1].id
    else:
        raise Unsupported("loop target " + _u(loop.target))
    if not _targets_iter(loop.iter, sp.target_lists) or loop.orelse:
        raise Unsupported("special-branch loop over " + _u(loop.iter))
    for st in loop.body:
        g = _guard(st, var)
        if g:
            sp.rules.append(g)
            continue
        if isinstance(st, ast.If) and _target_attr(st.test, var) in PAULI_OF_ATTR:
            if not _pauli_chain(st, var):
                raise Unsupported("unrecognised Pauli chain: " + _u(st)[:80])
            sp.rules.append("RulePauliOrRaise")
            continue
        if _same(st, f"invert ^= {var}.is_inverted_result_target"):
            sp.reads_inverted = True
            continue
        if _same(st, f"current_paulis.append((pauli_type, {var}.value))"):
            sp.value_read = True
            continue
        if _same(st, "next_idx = i + 1"):
            continue
        if isinstance(st, ast.If) and _u(st.test) == "next_idx >= len(targets) or not targets[next_idx].is_combiner":
            if st.orelse or len(st.body) != 3 or [_u(x) for x in st.body[1:]] != ["current_paulis = []", "invert = False"]:
                raise Unsupported("MPP product termination: " + _u(st)[:120])
            call = st.body[0]
            if not (isinstance(call, ast.Expr) and isinstance(call.value, ast.Call)):
                raise Unsupported("MPP product termination without call")
            c = call.value
            if [_u(a) for a in c.args[:3]] != ["b", "current_paulis", "invert"]:
                raise Unsupported("mpp call arguments: " + _u(c))
            _sink_call(sp, c)
            sp.combiner_joins = True
            continue
        raise Unsupported("statement in special-branch loop: " + _u(st)[:100])


def _special(names: list[str], body: list[ast.stmt]) -> _Special:
    sp = _Special(names)
    sp.callee = None
    for st in body:
        if isinstance(st, ast.If):
            nc = _name_cond(st.test)
            if nc is not None and not st.orelse and len(st.body) == 1 and _same(st.body[0], "finalize_correlated_error(b)"):
                continue
            raise Unsupported("if inside special branch: " + _u(st)[:80])
        an = _assign_target_name(st)
        if an is not None:
            nm, val = an
            if _u(val) == "instruction.targets_copy()":
                sp.target_lists.add(nm)
            elif _value_comprehension(val):
                sp.value_read = True
            elif sp.is_tainted(val):
                sp.tainted.add(nm)
            elif isinstance(val, ast.Constant) or _u(val) == "[]":
                pass
            else:
                raise Unsupported("assignment in special branch: " + _u(st)[:100])
            continue
        if isinstance(st, ast.For):
            _special_loop(sp, st)
            continue
        if isinstance(st, ast.Expr) and isinstance(st.value, ast.Call):
            _sink_call(sp, st.value)
            continue
        raise Unsupported("statement in special branch: " + _u(st)[:100])
    if sp.sink is None:
        raise Unsupported(f"special branch {names} never calls a known instruction function")
    reads = _gate_target_attrs_read(body)
    if ("pauli_type" in reads) or ("qubit_value" in reads):
        raise Unsupported("special branch reads GateTarget.pauli_type / qubit_value")
    if sp.sink != "SinkNone" and not sp.value_read:
        raise Unsupported(f"special branch {names} never reads target values")
    return sp


def _call_shape(call: ast.AST) -> tuple[bool, bool, list[str]]:
    """gate_func(b, *chunk, *args, kw=...) -> (passes chunk, passes args, keyword names)"""
    if not (isinstance(call, ast.Expr) and isinstance(call.value, ast.Call) and _u(call.value.func) == "gate_func"):
        raise Unsupported("dispatch call: " + _u(call)[:80])
    c = call.value
    pos = [_u(a) for a in c.args]
    if not pos or pos[0] != "b" or any(p not in ("*chunk", "*args") for p in pos[1:]) or pos[1:] != sorted(pos[1:], key=lambda s: s != "*chunk"):
        raise Unsupported("dispatch call positional arguments: " + _u(c))
    kws = []
    for k in c.keywords:
        if k.arg == "invert" and _u(k.value) == "True":
            kws.append("invert")
        elif k.arg == "classically_controlled" and _u(k.value) == "cc_chunk":
            kws.append("classically_controlled")
        else:
            raise Unsupported("dispatch call keyword: " + _u(c))
    return ("*chunk" in pos, "*args" in pos, kws)


def _dispatch(stmts: list[ast.stmt]) -> dict:
    d: dict = {"guards": []}
    i = 0

    def need(cond, what):
        if not cond:
            raise Unsupported("dispatch section: expected " + what + (", got " + _u(stmts[i])[:100] if i < len(stmts) else ", got end"))

    need(i < len(stmts) and _same(stmts[i], "gate_func, num_qubits = GATE_TABLE[name]"), "GATE_TABLE lookup")
    i += 1
    while i < len(stmts) and isinstance(stmts[i], ast.For):
        loop = stmts[i]
        if _u(loop.iter) != "instruction.targets_copy()" or not isinstance(loop.target, ast.Name):
            break
        for st in loop.body:
            g = _guard(st, loop.target.id)
            if not g or "RuleSkipIf" in g:
                raise Unsupported("dispatch guard: " + _u(st)[:100])
            d["guards"].append(g)
        i += 1
    need(i < len(stmts) and _same(stmts[i], "targets = [t.value for t in instruction.targets_copy()]"), "targets = [t.value ...]")
    i += 1
    for key, var in (("inv_attrs", "invert"), ("cc_attrs", "is_classically_controlled")):
        need(i < len(stmts), var)
        an = _assign_target_name(stmts[i])
        need(an is not None and an[0] == var and isinstance(an[1], ast.ListComp), f"{var} = [<pred> for t in targets]")
        comp = an[1]
        need(len(comp.generators) == 1 and _u(comp.generators[0].iter) == "instruction.targets_copy()"
             and isinstance(comp.generators[0].target, ast.Name) and not comp.generators[0].ifs, f"{var} comprehension")
        d[key] = [TATTR[a] for a in _attr_or(comp.elt, comp.generators[0].target.id)]
        i += 1
    need(i < len(stmts) and _same(stmts[i], "args = instruction.gate_args_copy()"), "args = instruction.gate_args_copy()")
    i += 1
    need(i < len(stmts) and isinstance(stmts[i], ast.For) and _u(stmts[i].target) == "i_target"
         and _u(stmts[i].iter) == "range(0, len(targets), num_qubits)", "chunk loop")
    body = stmts[i].body
    i += 1
    need(i == len(stmts), "nothing after the chunk loop")
    want = ["chunk = targets[i_target:i_target + num_qubits]",
            "cc_chunk = is_classically_controlled[i_target:i_target + num_qubits]"]
    if [_u(s) for s in body[:2]] != want:
        raise Unsupported("chunk slices: " + "; ".join(_u(s) for s in body[:2]))
    rest = body[2:]
    if rest and isinstance(rest[0], ast.Assert):
        rest = rest[1:]
    if len(rest) != 1 or not isinstance(rest[0], ast.If):
        raise Unsupported("chunk loop body")
    top = rest[0]
    if _u(top.test) != "invert[i_target]" or len(top.body) != 1 or len(top.orelse) != 1 or not isinstance(top.orelse[0], ast.If):
        raise Unsupported("3-way dispatch: first test must be invert[i_target]")
    mid = top.orelse[0]
    if _u(mid.test) != "any(cc_chunk)" or len(mid.body) != 1 or len(mid.orelse) != 1:
        raise Unsupported("3-way dispatch: second test must be any(cc_chunk)")
    d["call_inv"] = _call_shape(top.body[0])
    d["call_cc"] = _call_shape(mid.body[0])
    d["call_plain"] = _call_shape(mid.orelse[0])
    return d


def _fun_facts(fn: ast.FunctionDef) -> tuple[list[tuple[str, bool]], list[str]]:
    a = fn.args
    if a.vararg or a.kwarg or a.kwonlyargs or a.posonlyargs:
        raise Unsupported(f"{fn.name}: *args/**kw/keyword-only parameters")
    names = [x.arg for x in a.args]
    if not names or names[0] != "b":
        raise Unsupported(f"{fn.name}: first parameter is not b")
    nd = len(a.defaults)
    params = [(n, k >= len(names) - nd) for k, n in enumerate(names)][1:]
    used = {x.id for st in body_wo_doc(fn) for x in ast.walk(st) if isinstance(x, ast.Name) and isinstance(x.ctx, ast.Load)}
    return params, [n for n, _ in params if n in used]


def _cc_flow(fn: ast.FunctionDef) -> str:
    ps = [x.arg for x in fn.args.args][1:]
    calls = [c for st in body_wo_doc(fn) for c in ast.walk(st) if isinstance(c, ast.Call)
             and any(isinstance(x, ast.Name) and x.id == "classically_controlled" for a in c.args + [k.value for k in c.keywords] for x in ast.walk(a))]
    if len(calls) != 1 or calls[0].keywords or not isinstance(calls[0].func, ast.Name):
        raise Unsupported(f"{fn.name}: classically_controlled must be forwarded by exactly one positional call")
    c = calls[0]
    args = list(c.args)
    if _u(args[0]) != "b":
        raise Unsupported(f"{fn.name}: forward call without b")
    args = args[1:]
    is_cx = None
    if c.func.id == "_cx_cz":
        if not (isinstance(args[0], ast.Constant) and isinstance(args[0].value, bool)):
            raise Unsupported(f"{fn.name}: _cx_cz is_cx argument is not a literal")
        is_cx = args[0].value
        args = args[1:]
    if len(args) != 3 or not all(isinstance(x, ast.Name) for x in args[:2]):
        raise Unsupported(f"{fn.name}: forward call arguments {_u(c)}")
    ops = [args[0].id, args[1].id]
    if ops == ps[:2]:
        swap = False
    elif ops == ps[:2][::-1]:
        swap = True
    else:
        raise Unsupported(f"{fn.name}: forwards operands {ops}")
    cc = _u(args[2])
    if cc == "classically_controlled":
        rev = False
    elif cc in ("classically_controlled[::-1] if classically_controlled else None", "classically_controlled[::-1]"):
        rev = True
    else:
        raise Unsupported(f"{fn.name}: forwards {cc}")
    b = lambda x: "true" if x else "false"
    if is_cx is not None:
        if rev:
            raise Unsupported(f"{fn.name}: reversed flags into _cx_cz")
        return f"CCBase {b(is_cx)} {b(swap)}"
    return f"CCForward {coq_string(c.func.id)} {b(swap)} {b(rev)}"


def _cxcz_block(fn: ast.FunctionDef) -> dict:
    ps = [x.arg for x in fn.args.args]
    if ps != ["b", "is_cx", "control", "target", "classically_controlled"]:
        raise Unsupported("_cx_cz signature " + str(ps))
    blocks = [st for st in body_wo_doc(fn) if isinstance(st, ast.If) and _u(st.test) == "classically_controlled"]
    if len(blocks) != 2:
        raise Unsupported("_cx_cz: expected the classical-control block and the edge selection")
    # the first one is the operand block; it must precede every use of control/target as lanes
    body = body_wo_doc(fn)
    first = body.index(blocks[0])
    for st in body[:first]:
        if any(isinstance(x, ast.Name) and x.id in ("control", "target") for x in ast.walk(st)):
            raise Unsupported("_cx_cz uses control/target before the classical-control block")
    blk = blocks[0]
    if blk.orelse:
        raise Unsupported("_cx_cz classical-control block has an else")
    T_ASSERT = "assert len(classically_controlled) == 2"
    T_SWAP = ("if classically_controlled[1] and not is_cx:\n    classically_controlled = classically_controlled[::-1]\n"
              "    control, target = target, control")
    res = {"swap": False, "reject": False, "rec": False}
    stage = 0
    for st in blk.body:
        if isinstance(st, ast.Expr) and isinstance(st.value, ast.Constant):
            continue
        if stage <= 0 and _same(st, T_ASSERT):
            stage = 1
        elif stage <= 1 and _same(st, T_SWAP):
            res["swap"] = True
            stage = 2
        elif stage <= 2 and isinstance(st, ast.If) and _u(st.test) == "classically_controlled[1]" and not st.orelse \
                and len(st.body) == 1 and isinstance(st.body[0], ast.Raise):
            res["reject"] = True
            stage = 3
        elif stage <= 3 and _same(st, "m_vertex = b.rec[control]"):
            res["rec"] = True
            stage = 4
        elif stage == 4 and _same(st, "control = b.graph.qubit(m_vertex)"):
            stage = 5
        else:
            raise Unsupported("_cx_cz classical-control block: " + _u(st)[:100])
    if stage != 5:
        raise Unsupported("_cx_cz classical-control block does not end with the record lookup")
    edge = blocks[1]
    if not (len(edge.body) == 1 and _same(edge.body[0], "b.graph.add_edge((m_vertex, v2), edge_type)")
            and len(edge.orelse) == 1 and _same(edge.orelse[0], "b.graph.add_edge((v1, v2), edge_type)")):
        raise Unsupported("_cx_cz edge selection")
    return res


def _lst(xs) -> str:
    return "[" + "; ".join(xs) + "]"


def _b(x) -> str:
    return "true" if x else "false"


def translate(repo_src: Path) -> str:
    pmod = parse(repo_src / "core" / "parse.py")
    imod = parse(repo_src / "core" / "instructions.py")
    fn = functions(pmod)["parse_stim_circuit"]
    body = body_wo_doc(fn)
    if len(body) != 4 or not _same(body[0], "b = GraphRepresentation()") or not isinstance(body[1], ast.For) \
            or not _same(body[2], "finalize_correlated_error(b)") or not _same(body[3], "return b"):
        raise Unsupported("parse_stim_circuit: top-level shape")
    loop = body[1]
    if _u(loop.iter) != "stim_circuit.flattened()" or _u(loop.target) != "instruction" or loop.orelse:
        raise Unsupported("parse_stim_circuit does not iterate over stim_circuit.flattened()")

    skipped: list[str] = []
    specials: list[_Special] = []
    tag_renames: list[tuple[str, str, str]] = []
    parametric = False
    unknown_raises = False
    stmts = loop.body
    k = 0
    seen_name = False
    while k < len(stmts):
        st = stmts[k]
        if isinstance(st, ast.Assert) and _same(st, "assert not isinstance(instruction, stim.CircuitRepeatBlock)"):
            k += 1
            continue
        if _same(st, "name = instruction.name"):
            seen_name = True
            k += 1
            continue
        if _same(st, "gate_func, num_qubits = GATE_TABLE[name]"):
            break
        if not isinstance(st, ast.If) or not seen_name:
            raise Unsupported("parse loop statement: " + _u(st)[:100])
        names = _name_cond(st.test)
        if names is not None:
            if st.orelse:
                raise Unsupported("else on a name branch: " + _u(st.test))
            if len(st.body) == 1 and isinstance(st.body[0], ast.Continue):
                if specials:
                    raise Unsupported(f"skip branch for {names} after a special branch (the model gives skips precedence)")
                skipped += names
            elif isinstance(st.body[-1], ast.Continue):
                specials.append(_special(names, st.body[:-1]))
            else:
                raise Unsupported(f"branch for {names} does not end with continue")
            k += 1
            continue
        if _u(st.test) == "name not in GATE_TABLE" and len(st.body) == 1 and isinstance(st.body[0], ast.Raise) and not st.orelse:
            unknown_raises = True
            k += 1
            continue
        if _u(st.test) == "name not in GATE_TABLE" and len(st.body) == 1 and isinstance(st.body[0], ast.Continue) and not st.orelse:
            unknown_raises = False       # unknown names are dropped silently: recorded, the theorem then fails
            k += 1
            continue
        # tag renames: if name == "S" and instruction.tag == "T": name = "T" elif ...
        cur, ok = st, True
        ren = []
        while isinstance(cur, ast.If):
            t = cur.test
            if (isinstance(t, ast.BoolOp) and isinstance(t.op, ast.And) and len(t.values) == 2 and _name_cond(t.values[0])
                    and isinstance(t.values[1], ast.Compare) and _u(t.values[1].left) == "instruction.tag"
                    and isinstance(t.values[1].comparators[0], ast.Constant) and len(cur.body) == 1
                    and isinstance(cur.body[0], ast.Assign) and _u(cur.body[0].targets[0]) == "name"
                    and isinstance(cur.body[0].value, ast.Constant)):
                ren.append((_name_cond(t.values[0])[0], t.values[1].comparators[0].value, cur.body[0].value.value))
                cur = cur.orelse[0] if len(cur.orelse) == 1 else None
                if cur is None:
                    break
            else:
                ok = False
                break
        if ok and ren:
            tag_renames += ren
            k += 1
            continue
        if _u(st.test) == "name == 'I' and instruction.tag" and not st.orelse:
            reads = _gate_target_attrs_read(st.body)
            if reads - {"value"}:
                raise Unsupported(f"parametric-tag branch reads {sorted(reads)}")
            parametric = True
            k += 1
            continue
        raise Unsupported("parse loop statement: " + _u(st)[:100])
    disp = _dispatch(stmts[k:])

    # ---- instructions.py -------------------------------------------------------------------------------------
    ifuns = functions(imod)
    gt = toplevel_assign(imod, "GATE_TABLE")
    if not isinstance(gt, ast.Dict):
        raise Unsupported("GATE_TABLE is not a dict literal")
    table = []
    for kk, vv in zip(gt.keys, gt.values):
        if not (isinstance(kk, ast.Constant) and isinstance(kk.value, str) and isinstance(vv, ast.Tuple) and len(vv.elts) == 2
                and isinstance(vv.elts[0], ast.Name) and isinstance(vv.elts[1], ast.Constant) and isinstance(vv.elts[1].value, int)
                and vv.elts[1].value >= 1):
            raise Unsupported("GATE_TABLE row " + _u(kk))
        if vv.elts[0].id not in ifuns:
            raise Unsupported("GATE_TABLE names unknown function " + vv.elts[0].id)
        table.append((kk.value, vv.elts[0].id, vv.elts[1].value))
    if len({t[0] for t in table}) != len(table):
        raise Unsupported("duplicate GATE_TABLE key")
    fnames = list(dict.fromkeys(t[1] for t in table))
    flows = {}
    todo = list(fnames)
    facts = {}
    while todo:
        f = todo.pop(0)
        if f in facts:
            continue
        if f not in ifuns:
            raise Unsupported("unknown function " + f)
        params, used = _fun_facts(ifuns[f]) if f != "_cx_cz" else ([], [])
        facts[f] = (params, used)
        if f != "_cx_cz" and any(p == "classically_controlled" for p, _ in params):
            flows[f] = _cc_flow(ifuns[f])
            if flows[f].startswith("CCForward"):
                todo.append(ast.literal_eval(flows[f].split()[1].replace('""', '"')))
    cx = _cxcz_block(ifuns["_cx_cz"])
    # how special-branch callees use their target list
    for sp in specials:
        if sp.sink == "SinkRecord":
            f = ifuns[sp.callee]
            src = _u(f)
            second = [x.arg for x in f.args.args][1]
            if f"b.rec[" not in src or f" in {second}" not in src:
                raise Unsupported(f"{sp.callee}: second parameter is not used as an index into b.rec")
            sp.rejects_empty = "min(" in src
        else:
            sp.rejects_empty = False

    def call(t):
        return f"({_b(t[0])}, {_b(t[1])}, {_lst(coq_string(x) for x in t[2])})"

    L = [
        "(* GENERATED by /verif/translate/parse_facts.py from /repo/src/tsim/core/parse.py and",
        "   /repo/src/tsim/core/instructions.py -- do not edit *)",
        "From Coq Require Import String List Bool.",
        "Import ListNotations.",
        "Require Import TV.Model.ParseTypes.",
        "Open Scope string_scope.",
        "",
        "(* the parser iterates over stim_circuit.flattened(): REPEAT blocks never reach the dispatch *)",
        "Definition iterates_flattened : bool := true.",
        "(* names that are dropped without any effect *)",
        f"Definition skipped_names : list string := {_lst(coq_string(s) for s in skipped)}.",
        "(* tsim extension: (name, tag, name it is dispatched as) *)",
        f"Definition tag_renames : list (string * string * string) := {_lst(f'({coq_string(a)}, {coq_string(t)}, {coq_string(c)})' for a, t, c in tag_renames)}.",
        f"Definition parametric_tag_branch : bool := {_b(parametric)}.",
        "(* special-cased names: per-target rules in source order, how the callee uses `.value`, whether",
        "   is_inverted_result_target is read, whether a combiner keeps the product open, whether gate_args_copy() reaches the callee, whether an empty target list raises *)",
        "Definition specials : list special := [",
    ]
    rows = []
    for sp in specials:
        rows.append(f"  mkSpecial {_lst(coq_string(n) for n in sp.names)} {_lst(sp.rules)} {sp.sink} {_b(sp.reads_inverted)} {_b(sp.combiner_joins)} "
                    f"{_b(sp.args_consumed)} {_b(sp.rejects_empty)}")
    L.append(";\n".join(rows))
    L += [
        "].",
        "(* generic dispatch *)",
        f"Definition unknown_raises : bool := {_b(unknown_raises)}.",
        f"Definition dispatch_guards : list rule := {_lst(disp['guards'])}.",
        f"Definition dispatch_inv_attrs : list tattr := {_lst(disp['inv_attrs'])}.",
        f"Definition dispatch_cc_attrs : list tattr := {_lst(disp['cc_attrs'])}.",
        "(* (passes *chunk, passes *args, keywords) of the call in the `invert[i_target]` / `any(cc_chunk)` / plain branch *)",
        f"Definition call_inv : call_shape := {call(disp['call_inv'])}.",
        f"Definition call_cc : call_shape := {call(disp['call_cc'])}.",
        f"Definition call_plain : call_shape := {call(disp['call_plain'])}.",
        "(* GATE_TABLE: name -> (function, number of targets per application) *)",
        "Definition gate_table : list (string * (string * nat)) := [",
        ";\n".join(f"  ({coq_string(n)}, ({coq_string(f)}, {a}))" for n, f, a in table),
        "].",
        "(* per function: parameters after b as (name, has default), and the parameters its body mentions *)",
        "Definition gate_funs : list gfun := [",
        ";\n".join(
            f"  mkFun {coq_string(f)} {_lst(f'({coq_string(p)}, {_b(dflt)})' for p, dflt in facts[f][0])} {_lst(coq_string(u) for u in facts[f][1])}"
            for f in facts if f != "_cx_cz"),
        "].",
        "(* how classically_controlled travels: CCBase is_cx swap_operands | CCForward callee swap_operands reverse_flags *)",
        "Definition cc_flows : list (string * ccflow) := [",
        ";\n".join(f"  ({coq_string(f)}, {v})" for f, v in flows.items()),
        "].",
        "(* _cx_cz, classical-control block *)",
        f"Definition cxcz_cz_swaps : bool := {_b(cx['swap'])}.",
        f"Definition cxcz_rejects_flag1 : bool := {_b(cx['reject'])}.",
        f"Definition cxcz_control_is_record : bool := {_b(cx['rec'])}.",
        "",
    ]
    return "\n".join(L)
