"""sampler.py (sample_component dispatch, _sample_component loop skeleton, sample_program reordering,
CompiledStateProbs.probability_of) and compile/pipeline.py (_plug_outputs, outputs_to_plug, power2 balancing,
_remove_phase_terms)  ->  gen/Gen_sampler_dispatch.v

Fail-closed: every statement of the translated functions must have exactly one of the shapes below; the
*parameters* of the shapes (which expression is the Bernoulli parameter, the prev update, the stacking order of the
parameter row, slice bounds, the effect string, the power compensation, the dispatch threshold/callees ...) are
translated into Gallina, so an edit of those lines changes the model the proofs are checked against.

  sample_component(component, f_params, key):
      if len(component.output_indices) <cmp> <int>: return <callee>(component, f_params, key)
      return <callee>(component, f_params, key)             callee in {_sample_component, _sample_component_jit}
  @jax.jit _sample_component_jit(...): return <callee>(component, f_params, key)
  _sample_component: see _SC_FIXED / loop shape in `_translate_sample_component`
  _plug_outputs: effect = "<c>" * <nat expr> + ... ; enumerate(output_vertices[:<nat expr>]) ; add_power(<int expr>)
"""
from __future__ import annotations

import ast
from pathlib import Path

from translate.pyast import Unsupported, body_wo_doc, classes, functions, methods, parse

OUT = "Gen_sampler_dispatch.v"

ARGS3 = "(component, f_params, key)"


def _u(n) -> str:
    return ast.unparse(n)


def _expect(stmt: ast.stmt, text: str, where: str):
    if _u(stmt) != text:
        raise Unsupported(f"{where}: expected `{text}`, found `{_u(stmt)[:160]}`")


# ---- small expression languages -------------------------------------------------------------------------

def nat_expr(e: ast.expr, env: dict[str, str], where: str) -> str:
    """natural-number expression: names of env, non-negative int literals, +, - (truncated: python's str/list repeat
    and slice bounds treat negative counts as 0 in the places this is used), len(<known>)"""
    if isinstance(e, ast.Name) and e.id in env:
        return env[e.id]
    if isinstance(e, ast.Constant) and isinstance(e.value, int) and not isinstance(e.value, bool) and e.value >= 0:
        return str(e.value)
    if isinstance(e, ast.BinOp) and isinstance(e.op, (ast.Add, ast.Sub, ast.Mult)):
        op = {ast.Add: "+", ast.Sub: "-", ast.Mult: "*"}[type(e.op)]
        return f"({nat_expr(e.left, env, where)} {op} {nat_expr(e.right, env, where)})"
    if _u(e) in env:
        return env[_u(e)]
    raise Unsupported(f"{where}: unsupported index/count expression `{_u(e)}`")


def z_expr(e: ast.expr, env: dict[str, str], where: str) -> str:
    if isinstance(e, ast.Name) and e.id in env:
        return f"(Z.of_nat {env[e.id]})"
    if isinstance(e, ast.Constant) and isinstance(e.value, int) and not isinstance(e.value, bool):
        return f"({e.value})%Z"
    if isinstance(e, ast.UnaryOp) and isinstance(e.op, ast.USub):
        return f"(- {z_expr(e.operand, env, where)})%Z"
    if isinstance(e, ast.BinOp) and isinstance(e.op, (ast.Add, ast.Sub, ast.Mult)):
        op = {ast.Add: "+", ast.Sub: "-", ast.Mult: "*"}[type(e.op)]
        return f"({z_expr(e.left, env, where)} {op} {z_expr(e.right, env, where)})%Z"
    raise Unsupported(f"{where}: unsupported integer expression `{_u(e)}`")


def q_expr(e: ast.expr, env: dict[str, str], where: str, cond: str | None = None) -> str:
    """rational expression over the names in env; jnp.where(<cond>, a, b) -> if <cond> then a else b"""
    if isinstance(e, ast.Name) and e.id in env:
        return env[e.id]
    if isinstance(e, ast.Constant) and isinstance(e.value, int) and not isinstance(e.value, bool):
        return f"({e.value}#1)"
    if isinstance(e, ast.BinOp) and isinstance(e.op, (ast.Add, ast.Sub, ast.Mult, ast.Div)):
        op = {ast.Add: "+", ast.Sub: "-", ast.Mult: "*", ast.Div: "/"}[type(e.op)]
        return f"({q_expr(e.left, env, where, cond)} {op} {q_expr(e.right, env, where, cond)})"
    if isinstance(e, ast.UnaryOp) and isinstance(e.op, ast.USub):
        return f"(- {q_expr(e.operand, env, where, cond)})"
    if (isinstance(e, ast.Call) and _u(e.func) == "jnp.where" and len(e.args) == 3 and not e.keywords and cond is not None
            and isinstance(e.args[0], ast.Name) and e.args[0].id == cond):
        return f"(if {cond} then {q_expr(e.args[1], env, where, cond)} else {q_expr(e.args[2], env, where, cond)})"
    if (isinstance(e, ast.Call) and _u(e.func) == "jnp.where" and len(e.args) == 3 and not e.keywords and cond is not None
            and _u(e.args[0]) in (f"~{cond}", f"jnp.logical_not({cond})")):
        return f"(if {cond} then {q_expr(e.args[2], env, where, cond)} else {q_expr(e.args[1], env, where, cond)})"
    if isinstance(e, ast.Call) and _u(e.func) == "jnp.abs" and len(e.args) == 1 and not e.keywords:
        return f"(Qabs {q_expr(e.args[0], env, where, cond)})"
    raise Unsupported(f"{where}: unsupported arithmetic expression `{_u(e)}`")


# ---- sampler.py ---------------------------------------------------------------------------------------------

CALLEES = {"_sample_component": "py_sample_component", "_sample_component_jit": "py_sample_component_jit"}


def _callee(ret: ast.stmt, where: str) -> str:
    if not (isinstance(ret, ast.Return) and isinstance(ret.value, ast.Call) and isinstance(ret.value.func, ast.Name)):
        raise Unsupported(f"{where}: expected `return <fn>{ARGS3}`, found `{_u(ret)}`")
    fn = ret.value.func.id
    if fn not in CALLEES or _u(ret) != f"return {fn}{ARGS3}":
        raise Unsupported(f"{where}: unsupported callee/arguments `{_u(ret)}`")
    return fn


def _check_sig(fn: ast.FunctionDef, where: str):
    a = fn.args
    if [x.arg for x in a.args] != ["component", "f_params", "key"] or a.vararg or a.kwarg or a.kwonlyargs or a.defaults:
        raise Unsupported(f"{where}: signature changed")


def _translate_dispatch(fns) -> list[str]:
    sc = fns["sample_component"]
    _check_sig(sc, "sample_component")
    if sc.decorator_list:
        raise Unsupported("sample_component: decorators")
    body = body_wo_doc(sc)
    if len(body) != 2 or not isinstance(body[0], ast.If) or body[0].orelse or len(body[0].body) != 1:
        raise Unsupported("sample_component: expected `if <test>: return ...` followed by `return ...`")
    test = body[0].test
    if not (isinstance(test, ast.Compare) and len(test.ops) == 1 and _u(test.left) == "len(component.output_indices)"
            and isinstance(test.comparators[0], ast.Constant) and isinstance(test.comparators[0].value, int)):
        raise Unsupported(f"sample_component: unsupported test `{_u(test)}`")
    k = test.comparators[0].value
    ops = {ast.LtE: f"Nat.leb n_output_indices {k}", ast.Lt: f"Nat.ltb n_output_indices {k}",
           ast.GtE: f"Nat.leb {k} n_output_indices", ast.Gt: f"Nat.ltb {k} n_output_indices",
           ast.Eq: f"Nat.eqb n_output_indices {k}"}
    if type(test.ops[0]) not in ops or k < 0:
        raise Unsupported(f"sample_component: unsupported comparison `{_u(test)}`")
    c_then = _callee(body[0].body[0], "sample_component")
    c_else = _callee(body[1], "sample_component")

    jit = fns["_sample_component_jit"]
    _check_sig(jit, "_sample_component_jit")
    if [_u(d) for d in jit.decorator_list] != ["jax.jit"]:
        raise Unsupported("_sample_component_jit: expected exactly the decorator @jax.jit")
    jb = body_wo_doc(jit)
    if len(jb) != 1:
        raise Unsupported("_sample_component_jit: expected a single return")
    c_jit = _callee(jb[0], "_sample_component_jit")
    if c_jit != "_sample_component":
        raise Unsupported("_sample_component_jit must call _sample_component")
    if fns["_sample_component"].decorator_list:
        raise Unsupported("_sample_component: decorators")
    return [
        "(* ---- sampler.py :: sample_component / _sample_component_jit.  jax.jit is semantically the identity (oracle,",
        "        validated bit-exactly by the harness), so the jitted function IS its body. ---- *)",
        "Section Dispatch.",
        "  Variable A : Type.",
        "  Variable py_sample_component : A.            (* _sample_component *)",
        f"  Definition py_sample_component_jit : A := {CALLEES[c_jit]}.",
        "  Definition py_dispatch (n_output_indices : nat) : A :=",
        f"    if {ops[type(test.ops[0])]} then {CALLEES[c_then]} else {CALLEES[c_else]}.",
        "End Dispatch.",
        "",
    ]


def _hstack_items(e: ast.expr, where: str, names: dict[str, str]) -> str:
    if not (isinstance(e, ast.Call) and _u(e.func) == "jnp.hstack" and len(e.args) == 1 and not e.keywords
            and isinstance(e.args[0], ast.List)):
        raise Unsupported(f"{where}: expected jnp.hstack([...]), found `{_u(e)}`")
    parts = []
    for it in e.args[0].elts:
        s = _u(it)
        if s in names:
            parts.append(names[s])
            continue
        # m_accumulated[:, :E]
        if (isinstance(it, ast.Subscript) and isinstance(it.value, ast.Name) and it.value.id == "m_accumulated"
                and isinstance(it.slice, ast.Tuple) and len(it.slice.elts) == 2 and _u(it.slice.elts[0]) == ":"
                and isinstance(it.slice.elts[1], ast.Slice) and it.slice.elts[1].lower is None
                and it.slice.elts[1].step is None and it.slice.elts[1].upper is not None):
            parts.append(f"firstn {nat_expr(it.slice.elts[1].upper, {'i': 'i'}, where)} m_acc")
            continue
        raise Unsupported(f"{where}: unsupported hstack item `{s}`")
    return " ++ ".join(parts) if parts else "[]"


def _translate_sample_component(fns) -> list[str]:
    fn = fns["_sample_component"]
    _check_sig(fn, "_sample_component")
    b = body_wo_doc(fn)
    W = "_sample_component"
    if len(b) != 8:
        raise Unsupported(f"{W}: {len(b)} statements, expected 8")
    _expect(b[0], "batch_size = f_params.shape[0]", W)
    # num_outputs = len(component.compiled_scalar_graphs) - 1
    if not (isinstance(b[1], ast.Assign) and _u(b[1].targets[0]) == "num_outputs"):
        raise Unsupported(f"{W}: expected assignment to num_outputs")
    num_outputs = nat_expr(b[1].value, {"len(component.compiled_scalar_graphs)": "n_graphs"}, W)
    _expect(b[2], "f_selected = f_params[:, component.f_selection].astype(jnp.bool_)", W)
    _expect(b[3], "m_accumulated = jnp.zeros((batch_size, num_outputs), dtype=jnp.bool_)", W)
    # prev = jnp.abs(evaluate(component.compiled_scalar_graphs[G], PARAMS))
    st = b[4]
    ok = (isinstance(st, ast.Assign) and _u(st.targets[0]) == "prev" and isinstance(st.value, ast.Call)
          and _u(st.value.func) == "jnp.abs" and len(st.value.args) == 1 and isinstance(st.value.args[0], ast.Call)
          and _u(st.value.args[0].func) == "evaluate" and len(st.value.args[0].args) == 2 and not st.value.args[0].keywords)
    if not ok:
        raise Unsupported(f"{W}: normalisation statement `{_u(st)}`")
    garg, parg = st.value.args[0].args
    if not (isinstance(garg, ast.Subscript) and _u(garg.value) == "component.compiled_scalar_graphs"
            and isinstance(garg.slice, ast.Constant) and isinstance(garg.slice.value, int) and garg.slice.value >= 0):
        raise Unsupported(f"{W}: normalisation graph `{_u(garg)}`")
    norm_graph = garg.slice.value
    if _u(parg) == "f_selected":
        norm_params = "f"
    else:
        norm_params = _hstack_items(parg, W, {"f_selected": "f"})
    _expect(b[5], "ones = jnp.ones((batch_size, 1), dtype=jnp.bool_)", W)
    loop = b[6]
    if not (isinstance(loop, ast.For) and not loop.orelse and _u(loop.target) == "(i, circuit)"
            and isinstance(loop.iter, ast.Call) and _u(loop.iter.func) == "enumerate" and len(loop.iter.args) == 1
            and not loop.iter.keywords):
        raise Unsupported(f"{W}: loop header `{_u(loop)[:80]}`")
    it = loop.iter.args[0]
    if not (isinstance(it, ast.Subscript) and _u(it.value) == "component.compiled_scalar_graphs" and isinstance(it.slice, ast.Slice)
            and it.slice.upper is None and it.slice.step is None):
        raise Unsupported(f"{W}: loop iterates over `{_u(it)}`")
    start = 0 if it.slice.lower is None else it.slice.lower
    if not (start == 0 or (isinstance(start, ast.Constant) and isinstance(start.value, int) and start.value >= 0)):
        raise Unsupported(f"{W}: loop slice start `{_u(it)}`")
    start = 0 if start == 0 else start.value
    lb = loop.body
    if len(lb) != 6:
        raise Unsupported(f"{W}: loop body has {len(lb)} statements, expected 6")
    if not (isinstance(lb[0], ast.Assign) and _u(lb[0].targets[0]) == "params"):
        raise Unsupported(f"{W}: expected `params = jnp.hstack([...])`")
    params = _hstack_items(lb[0].value, W, {"f_selected": "f", "ones": "[true]"})
    _expect(lb[1], "p1 = jnp.abs(evaluate(circuit, params))", W)
    _expect(lb[2], "key, subkey = jax.random.split(key)", W)
    st = lb[3]
    if not (isinstance(st, ast.Assign) and _u(st.targets[0]) == "bits" and isinstance(st.value, ast.Call)
            and _u(st.value.func) == "jax.random.bernoulli" and [_u(a) for a in st.value.args] == ["subkey"]
            and [k.arg for k in st.value.keywords] == ["p"]):
        raise Unsupported(f"{W}: Bernoulli draw `{_u(st)}`")
    bern = q_expr(st.value.keywords[0].value, {"p1": "p1", "prev": "prev"}, W)
    st = lb[4]
    # m_accumulated = m_accumulated.at[:, IDX].set(bits)
    ok = (isinstance(st, ast.Assign) and _u(st.targets[0]) == "m_accumulated" and isinstance(st.value, ast.Call)
          and [_u(a) for a in st.value.args] == ["bits"] and not st.value.keywords and isinstance(st.value.func, ast.Attribute)
          and st.value.func.attr == "set" and isinstance(st.value.func.value, ast.Subscript)
          and _u(st.value.func.value.value) == "m_accumulated.at" and isinstance(st.value.func.value.slice, ast.Tuple)
          and len(st.value.func.value.slice.elts) == 2 and _u(st.value.func.value.slice.elts[0]) == ":")
    if not ok:
        raise Unsupported(f"{W}: write of the sampled bit `{_u(st)}`")
    widx = nat_expr(st.value.func.value.slice.elts[1], {"i": "i"}, W)
    st = lb[5]
    if not (isinstance(st, ast.Assign) and _u(st.targets[0]) == "prev"):
        raise Unsupported(f"{W}: expected the prev update, found `{_u(st)}`")
    upd = q_expr(st.value, {"p1": "p1", "prev": "prev"}, W, cond="bits")
    _expect(b[7], "return (m_accumulated, key)", W)
    return [
        "(* ---- sampler.py :: _sample_component (loop skeleton).  f = the f_selected row, m_acc = the m_accumulated row,",
        "        p1/prev as in the source; graph numbers index component.compiled_scalar_graphs ---- *)",
        f"Definition sc_num_outputs (n_graphs : nat) : nat := {num_outputs}.",
        f"Definition sc_norm_graph : nat := {norm_graph}.",
        f"Definition sc_norm_params (f : list bool) : list bool := {norm_params}.",
        f"Definition sc_loop_graph (i : nat) : nat := i + {start}.",
        f"Definition sc_params (f m_acc : list bool) (i : nat) : list bool := {params}.",
        f"Definition sc_bern_p (p1 prev : Q) : Q := ({bern})%Q.",
        f"Definition sc_write_index (i : nat) : nat := {widx}.",
        f"Definition sc_update (bits : bool) (p1 prev : Q) : Q := ({upd})%Q.",
        "",
    ]


def _translate_sample_program(fns) -> list[str]:
    fn = fns["sample_program"]
    b = body_wo_doc(fn)
    W = "sample_program"
    # optional guard for programs without components/outputs: an empty row per shot, which is what the gather below
    # yields on empty results as well (concat [] = [], argsort [] = [])
    guard = "if not results:\n    return jnp.zeros((f_params.shape[0], 0), dtype=jnp.bool_)"
    if len(b) == 5 and _u(b[2]) == guard:
        b = b[:2] + b[3:]
    if len(b) != 4:
        raise Unsupported(f"{W}: {len(b)} statements, expected 4 (+ optional empty-results guard)")
    _expect(b[0], "results: list[jax.Array] = []", W)
    _expect(b[1], "for component in program.components:\n    samples, key = sample_component(component, f_params, key)\n    results.append(samples)", W)
    _expect(b[2], "combined = jnp.concatenate(results, axis=1)", W)
    r = _u(b[3])
    if r == "return combined[:, jnp.argsort(program.output_order)]":
        idx = "argsort output_order"
    elif r == "return combined[:, program.output_order]":
        idx = "output_order"
    elif r == "return combined":
        idx = "seq 0 (length (concat results))"
    else:
        raise Unsupported(f"{W}: unsupported return `{r}`")
    return [
        "(* ---- sampler.py :: sample_program: per-component sample rows concatenated in component order, then gathered ---- *)",
        "Definition sp_result {A : Type} (d : A) (argsort : list nat -> list nat) (output_order : list nat) (results : list (list A)) : list A :=",
        f"  map (fun j => nth j (concat results) d) ({idx}).",
        "",
    ]


def _translate_probability_of(mod) -> list[str]:
    cls = classes(mod)["CompiledStateProbs"]
    fn = methods(cls)["probability_of"]
    W = "probability_of"
    b = body_wo_doc(fn)
    if len(b) != 5:
        raise Unsupported(f"{W}: {len(b)} statements, expected 5")
    _expect(b[0], "f_samples = self._channel_sampler.sample(batch_size)", W)
    _expect(b[1], "p_norm = jnp.ones(batch_size)", W)
    _expect(b[2], "p_joint = jnp.ones(batch_size)", W)
    loop = b[3]
    if not (isinstance(loop, ast.For) and _u(loop.target) == "component" and _u(loop.iter) == "self._program.components" and not loop.orelse):
        raise Unsupported(f"{W}: loop header")
    lb = loop.body
    if len(lb) != 8:
        raise Unsupported(f"{W}: loop body has {len(lb)} statements, expected 8")
    _expect(lb[0], "assert len(component.compiled_scalar_graphs) == 2", W)
    _expect(lb[1], "f_selected = f_samples[:, component.f_selection]", W)
    st = lb[2]
    if not (isinstance(st, ast.Assign) and isinstance(st.targets[0], ast.Tuple) and _u(st.value) == "component.compiled_scalar_graphs"
            and sorted(_u(t) for t in st.targets[0].elts) == ["joint_circuit", "norm_circuit"]):
        raise Unsupported(f"{W}: unpacking of the two graphs `{_u(st)}`")
    pos = {_u(t): k for k, t in enumerate(st.targets[0].elts)}
    _expect(lb[3], "p_norm = p_norm * jnp.abs(evaluate(norm_circuit, f_selected))", W)
    _expect(lb[4], "component_state = state[list(component.output_indices)]", W)
    _expect(lb[5], "tiled_state = jnp.tile(component_state, (batch_size, 1))", W)
    if not (isinstance(lb[6], ast.Assign) and _u(lb[6].targets[0]) == "joint_params"):
        raise Unsupported(f"{W}: expected joint_params")
    jp = _hstack_items(lb[6].value, W, {"f_selected": "f", "tiled_state": "st"})
    _expect(lb[7], "p_joint = p_joint * jnp.abs(evaluate(joint_circuit, joint_params))", W)
    ret = b[4]
    if not (isinstance(ret, ast.Return) and isinstance(ret.value, ast.Call) and _u(ret.value.func) == "np.asarray" and len(ret.value.args) == 1):
        raise Unsupported(f"{W}: return `{_u(ret)}`")
    res = q_expr(ret.value.args[0], {"p_joint": "p_joint", "p_norm": "p_norm"}, W)
    return [
        "(* ---- sampler.py :: CompiledStateProbs.probability_of ---- *)",
        f"Definition po_norm_graph : nat := {pos['norm_circuit']}.",
        f"Definition po_joint_graph : nat := {pos['joint_circuit']}.",
        "Definition po_norm_params (f : list bool) : list bool := f.",
        f"Definition po_joint_params (f st : list bool) : list bool := {jp}.",
        f"Definition po_result (p_joint p_norm : Q) : Q := ({res})%Q.",
        "",
    ]


# ---- compile/pipeline.py ------------------------------------------------------------------------------------

EFFECT = {"0": "Eff0", "1": "Eff1", "+": "EffPlus", "-": "EffMinus"}


def _effect_expr(e: ast.expr, env, where) -> str:
    if isinstance(e, ast.BinOp) and isinstance(e.op, ast.Add):
        return f"{_effect_expr(e.left, env, where)} ++ {_effect_expr(e.right, env, where)}"
    if isinstance(e, ast.BinOp) and isinstance(e.op, ast.Mult) and isinstance(e.left, ast.Constant) and isinstance(e.left.value, str):
        s = e.left.value
        if len(s) != 1 or s not in EFFECT:
            raise Unsupported(f"{where}: effect character {s!r}")
        return f"repeat {EFFECT[s]} {nat_expr(e.right, env, where)}"
    if isinstance(e, ast.Constant) and isinstance(e.value, str) and all(c in EFFECT for c in e.value):
        return "[" + "; ".join(EFFECT[c] for c in e.value) + "]"
    raise Unsupported(f"{where}: unsupported effect string expression `{_u(e)}`")


def _translate_plug_outputs(fns) -> list[str]:
    fn = fns["_plug_outputs"]
    W = "_plug_outputs"
    if [a.arg for a in fn.args.args] != ["graph", "m_chars", "outputs_to_plug"]:
        raise Unsupported(f"{W}: signature")
    b = body_wo_doc(fn)
    if len(b) != 4:
        raise Unsupported(f"{W}: {len(b)} statements, expected 4")
    _expect(b[0], "graphs: list[BaseGraph] = []", W)
    _expect(b[1], "num_outputs = len(graph.outputs())", W)
    loop = b[2]
    if not (isinstance(loop, ast.For) and _u(loop.target) == "num_plugged" and _u(loop.iter) == "outputs_to_plug" and not loop.orelse):
        raise Unsupported(f"{W}: loop header")
    lb = list(loop.body)
    env = {"num_plugged": "num_plugged", "num_outputs": "num_outputs"}
    if len(lb) not in (6, 7):
        raise Unsupported(f"{W}: loop body has {len(lb)} statements, expected 7")
    _expect(lb[0], "g = graph.copy()", W)
    _expect(lb[1], "output_vertices = list(g.outputs())", W)
    if not (isinstance(lb[2], ast.Assign) and _u(lb[2].targets[0]) == "effect"):
        raise Unsupported(f"{W}: expected assignment to effect")
    effect = _effect_expr(lb[2].value, env, W)
    _expect(lb[3], "g.apply_effect(effect)", W)
    ph = lb[4]
    if not (isinstance(ph, ast.For) and _u(ph.target) == "(i, v)" and not ph.orelse and len(ph.body) == 1
            and _u(ph.body[0]) == "g.set_phase(v, m_chars[i])" and isinstance(ph.iter, ast.Call) and _u(ph.iter.func) == "enumerate"
            and len(ph.iter.args) == 1 and isinstance(ph.iter.args[0], ast.Subscript) and _u(ph.iter.args[0].value) == "output_vertices"
            and isinstance(ph.iter.args[0].slice, ast.Slice) and ph.iter.args[0].slice.lower is None and ph.iter.args[0].slice.step is None
            and ph.iter.args[0].slice.upper is not None):
        raise Unsupported(f"{W}: phase-setting loop `{_u(ph)[:120]}`")
    cnt = nat_expr(ph.iter.args[0].slice.upper, env, W)
    rest = lb[5:]
    comp = "0%Z"
    if len(rest) == 2:
        st = rest[0]
        if not (isinstance(st, ast.Expr) and isinstance(st.value, ast.Call) and _u(st.value.func) == "g.scalar.add_power"
                and len(st.value.args) == 1 and not st.value.keywords):
            raise Unsupported(f"{W}: expected g.scalar.add_power(...), found `{_u(st)}`")
        comp = z_expr(st.value.args[0], env, W)
        rest = rest[1:]
    _expect(rest[0], "graphs.append(g)", W)
    _expect(b[3], "return graphs", W)
    return [
        "(* ---- compile/pipeline.py :: _plug_outputs ---- *)",
        "Inductive effect_char := Eff0 | Eff1 | EffPlus | EffMinus.",
        f"Definition plug_effect (num_outputs num_plugged : nat) : list effect_char := {effect}.",
        "(* set_phase(v, m_chars[i]) for (i, v) in enumerate(output_vertices[:plug_phase_count]) *)",
        f"Definition plug_phase_count (num_outputs num_plugged : nat) : nat := {cnt}.",
        "(* g.scalar.add_power(...): exponent of sqrt 2 added after apply_effect *)",
        f"Definition plug_power_comp (num_outputs num_plugged : nat) : Z := {comp}.",
        "",
    ]


def _translate_compile_component(fns) -> list[str]:
    fn = fns["_compile_component"]
    W = "_compile_component"
    stmts = {_u(s) for s in ast.walk(fn) if isinstance(s, ast.stmt)}
    for need in [
        "num_component_outputs = len(graph.outputs())",
        "output_indices = component.output_indices",
        "component_m_chars = [f'm{i}' for i in output_indices]",
        "plugged_graphs = _plug_outputs(graph, component_m_chars, outputs_to_plug)",
        "param_names = [f'f{i}' for i in f_selection]",
        "param_names += [f'm{output_indices[j]}' for j in range(num_m_plugged)]",
        "g_copy = plugged_graph.copy()",
        "zx.full_reduce(g_copy, paramSafe=True)",
        "g_list = find_stab(g_copy)",
        "compiled = compile_scalar_graphs(g_list, param_names)",
        "compiled_graphs.append(compiled)",
        "power2_base: int | None = None",
    ]:
        if need not in stmts:
            raise Unsupported(f"{W}: statement `{need}` not found")
    # outputs_to_plug
    ifs = [s for s in ast.walk(fn) if isinstance(s, ast.If) and _u(s.test) == "mode == 'sequential'"]
    if len(ifs) != 1 or len(ifs[0].body) != 1 or len(ifs[0].orelse) != 1:
        raise Unsupported(f"{W}: expected one `if mode == 'sequential'` with one statement per branch")

    def plug_list(st) -> str:
        if not (isinstance(st, ast.Assign) and _u(st.targets[0]) == "outputs_to_plug"):
            raise Unsupported(f"{W}: expected assignment to outputs_to_plug")
        v = st.value
        env = {"num_component_outputs": "n"}
        if isinstance(v, ast.Call) and _u(v.func) == "list" and len(v.args) == 1 and isinstance(v.args[0], ast.Call) \
                and _u(v.args[0].func) == "range" and len(v.args[0].args) == 1:
            return f"seq 0 {nat_expr(v.args[0].args[0], env, W)}"
        if isinstance(v, ast.List):
            return "[" + "; ".join(nat_expr(x, env, W) for x in v.elts) + "]"
        raise Unsupported(f"{W}: outputs_to_plug = `{_u(v)}`")

    seq_l, joint_l = plug_list(ifs[0].body[0]), plug_list(ifs[0].orelse[0])
    # the loop over (num_m_plugged, plugged_graph)
    loops = [s for s in ast.walk(fn) if isinstance(s, ast.For) and _u(s.target) == "(num_m_plugged, plugged_graph)"]
    if len(loops) != 1 or _u(loops[0].iter) != "zip(outputs_to_plug, plugged_graphs)":
        raise Unsupported(f"{W}: loop over zip(outputs_to_plug, plugged_graphs)")
    # power2 balancing: which graph defines the base?
    body = [_u(s) for s in loops[0].body]
    common = "if power2_base is None:\n    power2_base = g_copy.scalar.power2"
    per_graph = "power2_base = g_copy.scalar.power2"
    if "g_copy.scalar.add_power(-power2_base)" not in body:
        if common in body or per_graph in body:
            raise Unsupported(f"{W}: power2_base computed but not applied")
        base = "0%Z"
    elif common in body and body.index(common) < body.index("g_copy.scalar.add_power(-power2_base)"):
        base = "pw 0%nat"
    elif per_graph in body and body.index(per_graph) < body.index("g_copy.scalar.add_power(-power2_base)"):
        base = "pw g"
    else:
        raise Unsupported(f"{W}: power2 balancing shape")
    # _remove_phase_terms may only clear unit-modulus terms
    rp = fns["_remove_phase_terms"]
    cleared = []
    for st in body_wo_doc(rp):
        if not (isinstance(st, ast.Assign) and isinstance(st.targets[0], ast.Attribute) and _u(st.targets[0].value) == "graph.scalar"):
            raise Unsupported(f"_remove_phase_terms: statement `{_u(st)}`")
        cleared.append(st.targets[0].attr)
    unit_modulus = {"phasevars_halfpi", "phasevars_pi_pair", "phasevars_pi", "phase"}
    if not set(cleared) <= unit_modulus:
        raise Unsupported(f"_remove_phase_terms clears {sorted(set(cleared) - unit_modulus)}, which are not unit-modulus terms")
    return [
        "(* ---- compile/pipeline.py :: _compile_component ---- *)",
        "Definition outputs_to_plug (sequential : bool) (n : nat) : list nat :=",
        f"  if sequential then {seq_l} else {joint_l}.",
        "(* power2 balancing: add_power(-power2_base); pw g = power2 of the g-th reduced graph (abstract) *)",
        f"Definition power2_base_of (pw : nat -> Z) (g : nat) : Z := {base}.",
        "(* _remove_phase_terms clears only unit-modulus scalar terms: " + ", ".join(cleared) + " *)",
        "",
    ]


def translate(repo_src: Path) -> str:
    smod = parse(repo_src / "sampler.py")
    sf = functions(smod)
    for n in ("_sample_component", "_sample_component_jit", "sample_component", "sample_program"):
        if n not in sf:
            raise Unsupported(f"sampler.py: function {n} not found")
    pmod = parse(repo_src / "compile" / "pipeline.py")
    pf = functions(pmod)
    for n in ("_plug_outputs", "_compile_component", "_remove_phase_terms"):
        if n not in pf:
            raise Unsupported(f"pipeline.py: function {n} not found")
    lines = [
        "(* GENERATED by /verif/translate/sampler_dispatch.py from /repo/src/tsim/sampler.py and",
        "   /repo/src/tsim/compile/pipeline.py -- do not edit *)",
        "From Coq Require Import QArith Qabs ZArith List Bool Arith.",
        "Import ListNotations.",
        "Open Scope nat_scope.",
        "",
    ]
    lines += _translate_dispatch(sf)
    lines += _translate_sample_component(sf)
    lines += _translate_sample_program(sf)
    lines += _translate_probability_of(smod)
    lines += _translate_plug_outputs(pf)
    lines += _translate_compile_component(pf)
    return "\n".join(lines)
