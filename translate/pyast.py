"""Small helpers shared by the fail-closed Python-ast translators."""
from __future__ import annotations

import ast
from pathlib import Path


class Unsupported(Exception):
    """raised for any AST shape outside the supported fragment (translation is fail-closed)"""


def parse(path: Path) -> ast.Module:
    return ast.parse(Path(path).read_text())


def functions(mod: ast.Module) -> dict[str, ast.FunctionDef]:
    return {n.name: n for n in mod.body if isinstance(n, ast.FunctionDef)}


def classes(mod: ast.Module) -> dict[str, ast.ClassDef]:
    return {n.name: n for n in mod.body if isinstance(n, ast.ClassDef)}


def methods(cls: ast.ClassDef) -> dict[str, ast.FunctionDef]:
    return {n.name: n for n in cls.body if isinstance(n, ast.FunctionDef)}


def body_wo_doc(fn: ast.FunctionDef) -> list[ast.stmt]:
    b = list(fn.body)
    if b and isinstance(b[0], ast.Expr) and isinstance(b[0].value, ast.Constant) and isinstance(b[0].value.value, str):
        b = b[1:]
    return b


def toplevel_assign(mod: ast.Module, name: str) -> ast.expr:
    for n in mod.body:
        if isinstance(n, ast.Assign) and len(n.targets) == 1 and isinstance(n.targets[0], ast.Name) and n.targets[0].id == name:
            return n.value
        if isinstance(n, ast.AnnAssign) and isinstance(n.target, ast.Name) and n.target.id == name and n.value is not None:
            return n.value
    raise Unsupported(f"no top-level assignment to {name}")


def zlit(n: int) -> str:
    return f"({n})" if n < 0 else str(n)


def coq_string(s: str) -> str:
    return '"' + s.replace('"', '""') + '"'
