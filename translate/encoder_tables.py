"""utils/encoder.py  ->  gen/Gen_encoder.v   (fail-closed: anything outside the fragment raises Unsupported)

A. class tables of SteaneEncoder / ColorEncoder5 (literals):
     n, encoding_qubit, encoding program text (parsed into an instruction list: name + target groups),
     stabilizer_generators, observables, logical_gate_expansions
   and how TransversalEncoder.__init__ stores them (`self.logical_gate_expansions = logical_gate_expansions or {}` ...).

B. structure facts of `broadcast_targets`, `_transform_circuit`, `initialize`, `encode_transversally`:
   the code must have exactly the statement skeleton written below (compared after `ast.unparse`); the
   *index expressions* are holes that are translated to Gallina functions

     bt_index  t stride off   from  `[t.value * stride + off for t in g]`            (broadcast_targets)
     det_index t stride off   from  `stim.target_rec(<expr>)` in the DETECTOR branch
     obs_index t stride off   from  `stim.target_rec(<expr>)` in the OBSERVABLE_INCLUDE branch
     init_prep_stride n encq / init_prep_offsets n encq      from initialize(), first  _transform_circuit call
     init_enc_stride  n      / init_enc_offset n off         from initialize(), second _transform_circuit call
                                                             (`[<expr> for off in sorted(self.used_qubits)]`)
     trans_stride n / trans_offsets_hi n                     from encode_transversally (`list(range(<expr>))`)

   so a change such as `t.value * stride + off + 1` regenerates a different Gallina function and the proofs of
   Proofs/EncoderProofs.v about it no longer close.  The hand model Model/Encoder.v implements the skeleton.
"""
from __future__ import annotations

import ast
import copy
import re
from pathlib import Path

from translate.pyast import Unsupported, body_wo_doc, classes, coq_string, functions, methods, parse, zlit

OUT = "Gen_encoder.v"

# gates allowed inside an encoding program, with the size of a target group (what stim's target_groups() returns)
ARITY = {"R": 1, "H": 1, "S": 1, "S_DAG": 1, "SQRT_X": 1, "SQRT_X_DAG": 1, "SQRT_Y": 1, "SQRT_Y_DAG": 1,
         "X": 1, "Y": 1, "Z": 1, "I": 1, "CX": 2, "CZ": 2, "TICK": 0}


# ---------------------------------------------------------------------------------------- arithmetic holes
def _arith(e: ast.expr, env: dict[str, str]) -> str:
    """integer expression over the names in env with + - * and int literals -> Gallina (Z)"""
    s = ast.unparse(e)
    if s in env:
        return env[s]
    if isinstance(e, ast.Constant) and isinstance(e.value, int) and not isinstance(e.value, bool):
        return zlit(e.value)
    if isinstance(e, ast.BinOp) and isinstance(e.op, (ast.Add, ast.Sub, ast.Mult)):
        op = {ast.Add: "+", ast.Sub: "-", ast.Mult: "*"}[type(e.op)]
        return f"({_arith(e.left, env)} {op} {_arith(e.right, env)})"
    if isinstance(e, ast.UnaryOp) and isinstance(e.op, ast.USub):
        return f"(- {_arith(e.operand, env)})"
    raise Unsupported("index expression outside the +,-,* fragment: " + s)


class _Hole(ast.NodeTransformer):
    """replace given nodes (by identity) with Name(HOLEk)"""

    def __init__(self, nodes):
        self.ids = {id(n): f"HOLE{k}" for k, n in enumerate(nodes)}

    def generic_visit(self, node):
        for field, old in ast.iter_fields(node):
            if isinstance(old, list):
                new = []
                for v in old:
                    if isinstance(v, ast.AST):
                        new.append(ast.Name(self.ids[id(v)], ast.Load()) if id(v) in self.ids else self.generic_visit(v))
                    else:
                        new.append(v)
                setattr(node, field, new)
            elif isinstance(old, ast.AST):
                setattr(node, field, ast.Name(self.ids[id(old)], ast.Load()) if id(old) in self.ids else self.generic_visit(old))
        return node


def _skeleton(fn: ast.FunctionDef, holes: list[ast.AST]) -> str:
    body = body_wo_doc(fn)
    # the same assignment written twice in a row is one assignment
    dedup = []
    for st in body:
        if dedup and isinstance(st, ast.Assign) and ast.dump(st) == ast.dump(dedup[-1]):
            continue
        dedup.append(st)
    mod = ast.Module(body=dedup, type_ignores=[])
    # NodeTransformer mutates: work on the original nodes but restore nothing (the tree is private to this call)
    _Hole(holes).generic_visit(mod)
    return ast.unparse(ast.fix_missing_locations(mod))


def _sig(fn: ast.FunctionDef) -> str:
    return ast.unparse(fn.args)


BT_SKEL = """out: list[int] = []
for g in groups:
    for off in offsets:
        out.extend([HOLE0 for t in g])
return out"""
# variant that keeps the inversion flag of `M !q` targets on every broadcast target
BT_SKEL_INV = """out: list[int | stim.GateTarget] = []
for g in groups:
    for off in offsets:
        out.extend([stim.target_inv(HOLE0) if t.is_inverted_result_target else HOLE1 for t in g])
return out"""

TC_SKEL = """stim_circ = tsim.Circuit(program_text)._stim_circ
mod_circ = stim.Circuit()
for instr in stim_circ:
    assert not isinstance(instr, stim.CircuitRepeatBlock)
    if len(instr.targets_copy()) == 0:
        mod_circ.append_operation(instr)
        continue
    if used_qubits is not None:
        used_qubits |= {t.value for g in instr.target_groups() for t in g}
    if instr.name == 'DETECTOR' and stabilizer_generators:
        for gen in stabilizer_generators:
            targets = []
            for g in instr.target_groups():
                for t in g:
                    targets.extend([stim.target_rec(HOLE0) for off in gen])
            mod_circ.append(instr.name, targets, instr.gate_args_copy(), tag=instr.tag)
        continue
    if instr.name == 'OBSERVABLE_INCLUDE' and observables:
        for obs in observables:
            targets = []
            for g in instr.target_groups():
                for t in g:
                    targets.extend([stim.target_rec(HOLE1) for off in obs])
            mod_circ.append(instr.name, targets, instr.gate_args_copy(), tag=instr.tag)
        continue
    new_ts = broadcast_targets(instr.target_groups(), stride=stride, offsets=offsets)
    gate_seq = gate_expansions.get(instr.name, [instr.name]) if gate_expansions else [instr.name]
    for g in gate_seq:
        mod_circ.append(g, new_ts, instr.gate_args_copy(), tag=instr.tag)
return mod_circ"""

TC_SIG = ("program_text: str, *, stride: int, offsets: list[int], gate_expansions: dict[str, list[str]] | None=None, "
          "used_qubits: set[int] | None=None, stabilizer_generators: list[list[int]] | None=None, "
          "observables: list[list[int]] | None=None")

INIT_SKEL = """encoding = encoding_program_text or self.encoding_program_text
if not encoding:
    raise ValueError('Encoding program text is required')
mod_circ = _transform_circuit(program_text, stride=HOLE0, offsets=HOLE1, used_qubits=self.used_qubits, stabilizer_generators=self.stabilizer_generators, observables=self.observables)
self.circuit.append_from_stim_program_text(str(mod_circ))
self.circuit.append_from_stim_program_text(str(_transform_circuit(encoding, stride=HOLE2, offsets=[HOLE3 for off in sorted(self.used_qubits)], stabilizer_generators=self.stabilizer_generators, observables=self.observables)))"""

# variant that encodes only the logical qubits prepared by the current call
INIT_SKEL_NEW = """encoding = encoding_program_text or self.encoding_program_text
if not encoding:
    raise ValueError('Encoding program text is required')
new_qubits: set[int] = set()
mod_circ = _transform_circuit(program_text, stride=HOLE0, offsets=HOLE1, used_qubits=new_qubits, stabilizer_generators=self.stabilizer_generators, observables=self.observables)
self.used_qubits |= new_qubits
self.circuit.append_from_stim_program_text(str(mod_circ))
self.circuit.append_from_stim_program_text(str(_transform_circuit(encoding, stride=HOLE2, offsets=[HOLE3 for off in sorted(new_qubits)], stabilizer_generators=self.stabilizer_generators, observables=self.observables)))"""

TRANS_SKEL = """mod_circ = _transform_circuit(program_text, stride=HOLE0, offsets=list(range(HOLE1)), gate_expansions=self.logical_gate_expansions, stabilizer_generators=self.stabilizer_generators, observables=self.observables)
self.circuit.append_from_stim_program_text(str(mod_circ))"""

BASE_INIT_SKEL = """self.n = n
self.encoding_qubit = encoding_qubit
self.circuit = tsim.Circuit()
self.used_qubits: set[int] = set()
self.encoding_program_text = encoding_program_text
self.logical_gate_expansions = logical_gate_expansions or {}
self.stabilizer_generators = stabilizer_generators
self.observables = observables"""


def _calls(fn, name):
    return [n for n in ast.walk(fn) if isinstance(n, ast.Call) and ast.unparse(n.func) == name]


def _kw(call: ast.Call, name: str) -> ast.expr:
    for k in call.keywords:
        if k.arg == name:
            return k.value
    raise Unsupported(f"call {ast.unparse(call.func)} lacks keyword {name}")


def _check_skel(what: str, got: str, want: str):
    if got != want:
        g, w = got.splitlines(), want.splitlines()
        for i in range(max(len(g), len(w))):
            a = g[i] if i < len(g) else "<missing>"
            b = w[i] if i < len(w) else "<missing>"
            if a != b:
                raise Unsupported(f"{what}: statement skeleton differs at line {i + 1}: got `{a.strip()}` expected `{b.strip()}`")
        raise Unsupported(f"{what}: skeleton differs")


def structure_facts(mod: ast.Module) -> list[str]:
    fns = functions(mod)
    out = []
    # ---- broadcast_targets
    bt = copy.deepcopy(fns["broadcast_targets"])
    if _sig(bt) != "groups: list[list[stim.GateTarget]], *, stride: int, offsets: list[int]":
        raise Unsupported("broadcast_targets signature: " + _sig(bt))
    comps = [n for n in ast.walk(bt) if isinstance(n, ast.ListComp)]
    if len(comps) != 1:
        raise Unsupported("broadcast_targets: expected exactly one list comprehension")
    env = {"t.value": "t", "stride": "stride", "off": "off"}
    elt = comps[0].elt
    if isinstance(elt, ast.IfExp):
        if not (isinstance(elt.body, ast.Call) and ast.unparse(elt.body.func) == "stim.target_inv" and len(elt.body.args) == 1 and not elt.body.keywords):
            raise Unsupported("broadcast_targets: conditional element must be stim.target_inv(<expr>) if ... else <expr>")
        bt_index = _arith(elt.orelse, env)
        if _arith(elt.body.args[0], env) != bt_index:
            raise Unsupported("broadcast_targets: inverted and plain targets use different index expressions")
        _check_skel("broadcast_targets", _skeleton(bt, [elt.body.args[0], elt.orelse]), BT_SKEL_INV)
        keeps_inv = True
    else:
        bt_index = _arith(elt, env)
        _check_skel("broadcast_targets", _skeleton(bt, [elt]), BT_SKEL)
        keeps_inv = False
    out.append(f"Definition bt_index (t stride off : Z) : Z := {bt_index}.")
    out.append("(* does broadcast_targets keep the inversion flag of measurement targets (M !q)? *)")
    out.append(f"Definition bt_keeps_inversion : bool := {'true' if keeps_inv else 'false'}.")
    # ---- _transform_circuit
    tc = copy.deepcopy(fns["_transform_circuit"])
    if _sig(tc) != TC_SIG:
        raise Unsupported("_transform_circuit signature: " + _sig(tc))
    recs = _calls(tc, "stim.target_rec")
    if len(recs) != 2 or any(len(c.args) != 1 or c.keywords for c in recs):
        raise Unsupported("_transform_circuit: expected exactly two stim.target_rec(<expr>) calls")
    recs.sort(key=lambda c: (c.lineno, c.col_offset))
    det_index = _arith(recs[0].args[0], env)
    obs_index = _arith(recs[1].args[0], env)
    _check_skel("_transform_circuit", _skeleton(tc, [recs[0].args[0], recs[1].args[0]]), TC_SKEL)
    out.append(f"Definition det_index (t stride off : Z) : Z := {det_index}.")
    out.append(f"Definition obs_index (t stride off : Z) : Z := {obs_index}.")
    # ---- TransversalEncoder
    te = classes(mod)["TransversalEncoder"]
    ms = methods(te)
    binit = copy.deepcopy(ms["__init__"])
    if _sig(binit) != ("self, n: int, encoding_qubit: int, encoding_program_text: str | None, stabilizer_generators: list[list[int]], "
                       "observables: list[list[int]], logical_gate_expansions: dict[str, list[str]] | None=None"):
        raise Unsupported("TransversalEncoder.__init__ signature: " + _sig(binit))
    _check_skel("TransversalEncoder.__init__", _skeleton(binit, []), BASE_INIT_SKEL)
    ini = copy.deepcopy(ms["initialize"])
    if _sig(ini) != "self, program_text: str, encoding_program_text: str | None=None":
        raise Unsupported("initialize signature: " + _sig(ini))
    calls = sorted(_calls(ini, "_transform_circuit"), key=lambda c: (c.lineno, c.col_offset))
    if len(calls) != 2:
        raise Unsupported("initialize: expected two _transform_circuit calls")
    c1, c2 = calls
    off2 = _kw(c2, "offsets")
    if not (isinstance(off2, ast.ListComp) and len(off2.generators) == 1):
        raise Unsupported("initialize: offsets of the encoding call must be a list comprehension")
    h = [_kw(c1, "stride"), _kw(c1, "offsets"), _kw(c2, "stride"), off2.elt]
    envn = {"self.n": "n", "self.encoding_qubit": "encq", "off": "off"}
    prep_stride = _arith(h[0], envn)
    if not isinstance(h[1], ast.List):
        raise Unsupported("initialize: offsets of the preparation call must be a list literal")
    prep_offsets = "[" + "; ".join(_arith(x, envn) for x in h[1].elts) + "]"
    enc_stride = _arith(h[2], envn)
    enc_off = _arith(h[3], envn)
    new_only = "new_qubits" in ast.unparse(ini)
    _check_skel("initialize", _skeleton(ini, h), INIT_SKEL_NEW if new_only else INIT_SKEL)
    out.append("(* does initialize() encode only the logical qubits prepared by the current call (true) or all qubits")
    out.append("   ever used, i.e. re-encode blocks of earlier calls (false)? *)")
    out.append(f"Definition init_encodes_new_only : bool := {'true' if new_only else 'false'}.")
    out.append(f"Definition init_prep_stride (n encq : Z) : Z := {prep_stride}.")
    out.append(f"Definition init_prep_offsets (n encq : Z) : list Z := {prep_offsets}.")
    out.append(f"Definition init_enc_stride (n encq : Z) : Z := {enc_stride}.")
    out.append(f"Definition init_enc_offset (n encq off : Z) : Z := {enc_off}.")
    tr = copy.deepcopy(ms["encode_transversally"])
    if _sig(tr) != "self, program_text: str":
        raise Unsupported("encode_transversally signature: " + _sig(tr))
    calls = _calls(tr, "_transform_circuit")
    if len(calls) != 1:
        raise Unsupported("encode_transversally: expected one _transform_circuit call")
    offs = _kw(calls[0], "offsets")
    if not (isinstance(offs, ast.Call) and ast.unparse(offs.func) == "list" and len(offs.args) == 1 and isinstance(offs.args[0], ast.Call)
            and ast.unparse(offs.args[0].func) == "range" and len(offs.args[0].args) == 1):
        raise Unsupported("encode_transversally: offsets must be list(range(<expr>))")
    h = [_kw(calls[0], "stride"), offs.args[0].args[0]]
    t_stride, t_hi = _arith(h[0], envn), _arith(h[1], envn)
    _check_skel("encode_transversally", _skeleton(tr, h), TRANS_SKEL)
    out.append(f"Definition trans_stride (n encq : Z) : Z := {t_stride}.")
    out.append(f"Definition trans_offsets_hi (n encq : Z) : Z := {t_hi}.")
    return out


# ---------------------------------------------------------------------------------------- class tables
def parse_encoding_text(text: str) -> list[tuple[str, list[list[int]]]]:
    """instruction list the way stim parses it (adjacent lines with the same gate are fused), names restricted
    to ARITY; no arguments, tags, comments or special targets"""
    out: list[tuple[str, list[list[int]]]] = []
    for raw in text.splitlines():
        line = raw.strip()
        if not line:
            continue
        if not re.fullmatch(r"[A-Z_]+( +\d+)*", line):
            raise Unsupported(f"encoding program line outside the fragment: {line!r}")
        parts = line.split()
        name, ts = parts[0], [int(x) for x in parts[1:]]
        if name not in ARITY:
            raise Unsupported(f"encoding program uses gate {name} (not in the supported table)")
        ar = ARITY[name]
        if ar == 0:
            if ts:
                raise Unsupported(f"{name} with targets")
            out.append((name, []))
            continue
        if not ts or len(ts) % ar:
            raise Unsupported(f"bad target count in {line!r}")
        groups = [ts[i:i + ar] for i in range(0, len(ts), ar)]
        if out and out[-1][0] == name:
            out[-1] = (name, out[-1][1] + groups)
        else:
            out.append((name, groups))
    return out


def _int_lists(v, what) -> list[list[int]]:
    if not (isinstance(v, list) and all(isinstance(r, list) and all(isinstance(x, int) and not isinstance(x, bool) and x >= 0 for x in r) for r in v)):
        raise Unsupported(f"{what}: expected list of lists of non-negative ints")
    return v


def class_table(cls: ast.ClassDef) -> dict:
    if [ast.unparse(b) for b in cls.bases] != ["TransversalEncoder"]:
        raise Unsupported(f"{cls.name}: base classes")
    ms = methods(cls)
    if set(ms) != {"__init__"}:
        raise Unsupported(f"{cls.name}: methods {sorted(ms)} (only __init__ supported; overriding methods changes the model)")
    init = ms["__init__"]
    if _sig(init) != "self":
        raise Unsupported(f"{cls.name}.__init__ signature")
    local: dict[str, object] = {}
    body = body_wo_doc(init)
    if not body:
        raise Unsupported(f"{cls.name}.__init__ empty")
    for st in body[:-1]:
        if not (isinstance(st, ast.Assign) and len(st.targets) == 1 and isinstance(st.targets[0], ast.Name)):
            raise Unsupported(f"{cls.name}.__init__: unsupported statement {ast.unparse(st)[:60]}")
        try:
            local[st.targets[0].id] = ast.literal_eval(st.value)
        except Exception:
            raise Unsupported(f"{cls.name}.__init__: non-literal value for {st.targets[0].id}")
    last = body[-1]
    if not (isinstance(last, ast.Expr) and isinstance(last.value, ast.Call) and ast.unparse(last.value.func) == "super().__init__"
            and not last.value.args):
        raise Unsupported(f"{cls.name}.__init__: last statement must be super().__init__(keyword arguments)")
    kw = {}
    for k in last.value.keywords:
        if k.arg is None:
            raise Unsupported("**kwargs")
        if isinstance(k.value, ast.Name):
            if k.value.id not in local:
                raise Unsupported(f"{cls.name}: unknown local {k.value.id}")
            kw[k.arg] = local[k.value.id]
        else:
            try:
                kw[k.arg] = ast.literal_eval(k.value)
            except Exception:
                raise Unsupported(f"{cls.name}: non-literal argument {k.arg}")
    allowed = {"n", "encoding_qubit", "encoding_program_text", "logical_gate_expansions", "stabilizer_generators", "observables"}
    if not set(kw) <= allowed or not {"n", "encoding_qubit", "encoding_program_text", "stabilizer_generators", "observables"} <= set(kw):
        raise Unsupported(f"{cls.name}: super().__init__ keywords {sorted(kw)}")
    n, q = kw["n"], kw["encoding_qubit"]
    if not (isinstance(n, int) and isinstance(q, int) and 0 <= q < n):
        raise Unsupported(f"{cls.name}: n / encoding_qubit")
    if not isinstance(kw["encoding_program_text"], str):
        raise Unsupported(f"{cls.name}: encoding program must be a string literal")
    exps = kw.get("logical_gate_expansions") or {}
    if not (isinstance(exps, dict) and all(isinstance(k, str) and isinstance(v, list) and all(isinstance(x, str) for x in v) for k, v in exps.items())):
        raise Unsupported(f"{cls.name}: logical_gate_expansions")
    return dict(name=cls.name, n=n, encq=q, encoding=parse_encoding_text(kw["encoding_program_text"]),
                stabs=_int_lists(kw["stabilizer_generators"], "stabilizer_generators"),
                obs=_int_lists(kw["observables"], "observables"), exps=exps)


def _zl(xs) -> str:
    return "[" + "; ".join(zlit(x) for x in xs) + "]"


def _zll(xss) -> str:
    return "[" + "; ".join(_zl(xs) for xs in xss) + "]"


def table_coq(ident: str, t: dict) -> list[str]:
    enc = ";\n     ".join(f"({coq_string(nm)}, {_zll(gs)})" for nm, gs in t["encoding"])
    exps = "; ".join(f"({coq_string(k)}, [" + "; ".join(coq_string(x) for x in v) + "])" for k, v in t["exps"].items())
    return [
        f"Definition {ident} : enc_table := {{|",
        f"  e_n := {zlit(t['n'])};",
        f"  e_encq := {zlit(t['encq'])};",
        f"  e_encoding :=\n    [{enc}];",
        f"  e_stabs := {_zll(t['stabs'])};",
        f"  e_obs := {_zll(t['obs'])};",
        f"  e_exps := [{exps}] |}}.",
    ]


def translate(repo_src: Path) -> str:
    mod = parse(repo_src / "utils" / "encoder.py")
    cl = classes(mod)
    for need in ("TransversalEncoder", "SteaneEncoder", "ColorEncoder5"):
        if need not in cl:
            raise Unsupported(f"class {need} not found")
    facts = structure_facts(mod)
    st = class_table(cl["SteaneEncoder"])
    c5 = class_table(cl["ColorEncoder5"])
    lines = [
        "(* GENERATED by /verif/translate/encoder_tables.py from /repo/src/tsim/utils/encoder.py -- do not edit *)",
        "From Coq Require Import ZArith List String.",
        "Import ListNotations.",
        "Local Open Scope Z_scope.",
        "Local Open Scope string_scope.",
        "(* an instruction of an encoding program: name and target groups (as stim's target_groups()) *)",
        "Record enc_table := {",
        "  e_n : Z; e_encq : Z;",
        "  e_encoding : list (string * list (list Z));",
        "  e_stabs : list (list Z); e_obs : list (list Z);",
        "  e_exps : list (string * list string) }.",
        "",
        "(* index arithmetic of broadcast_targets / the DETECTOR and OBSERVABLE_INCLUDE branches / the three call sites *)",
    ] + facts + [""] + table_coq("steane", st) + [""] + table_coq("color5", c5) + [""]
    return "\n".join(lines)
