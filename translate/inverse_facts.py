"""circuit.py::Circuit.inverse (re-tagging of parametric identity gates)  ->  gen/Gen_inverse.v

Read from the CURRENT source (fail-closed, anything else raises Unsupported):
  * the guard under which an instruction of stim's inverse is re-tagged (`name == 'I' and tag`, then
    `parse_parametric_tag(tag)` not None), everything else being appended unchanged;
  * for the U3 branch and for the generic rotation branch: which parameter each formatted value is read from,
    whether it is negated, the function applied to it (`float` = repr of a double, or the exact positional
    formatter `_format_angle`) and the f-string that builds the new tag;
  * when `_format_angle` is used, its body is compared statement by statement with the shape that
    Model/InverseTag.v::format_positional models.
"""
from __future__ import annotations

import ast
from pathlib import Path

from translate.pyast import Unsupported, body_wo_doc, classes, functions, methods, parse

OUT = "Gen_inverse.v"

_FORMAT_ANGLE_SHAPE = [
    "sign = '-' if x < 0 else ''",
    "num, den = (abs(x.numerator), x.denominator)",
    "scale = 0",
    "while num * 10 ** scale % den != 0:\n    scale += 1",
    "digits = str(num * 10 ** scale // den).rjust(scale + 1, '0')",
    "if scale == 0:\n    return f'{sign}{digits}.0'",
    "return f'{sign}{digits[:-scale]}.{digits[-scale:]}'",
]

_PRELUDE_SHAPE = [
    "inv_stim_raw = self._stim_circ.inverse()",
    "inv_stim = stim.Circuit()",
]
_LOOP_HEAD = [
    "assert not isinstance(instr, stim.CircuitRepeatBlock)",
    "name = instr.name",
    "tag = instr.tag",
    "targets = [t.value for t in instr.targets_copy()]",
    "args = instr.gate_args_copy()",
]


def _coq_str(s: str) -> str:
    if all(32 <= ord(c) < 127 and c != '"' for c in s):
        return f'(lit "{s}")'
    raise Unsupported(f"unexpected text {s!r}")


def _value_assign(st: ast.stmt):
    """var = FMT(-params["key"])  ->  (var, fmt, key, negated)"""
    if not (isinstance(st, ast.Assign) and len(st.targets) == 1 and isinstance(st.targets[0], ast.Name)
            and isinstance(st.value, ast.Call) and isinstance(st.value.func, ast.Name) and len(st.value.args) == 1
            and not st.value.keywords):
        raise Unsupported("inverse: expected `var = fmt(+-params[key])`, got " + ast.unparse(st))
    arg = st.value.args[0]
    neg = False
    if isinstance(arg, ast.UnaryOp) and isinstance(arg.op, ast.USub):
        neg, arg = True, arg.operand
    if not (isinstance(arg, ast.Subscript) and isinstance(arg.value, ast.Name) and arg.value.id == "params"
            and isinstance(arg.slice, ast.Constant) and isinstance(arg.slice.value, str)):
        raise Unsupported("inverse: expected params[<str>], got " + ast.unparse(arg))
    return st.targets[0].id, st.value.func.id, arg.slice.value, neg


def _template(st: ast.stmt, env: dict[str, int]) -> str:
    if not (isinstance(st, ast.Assign) and len(st.targets) == 1 and isinstance(st.targets[0], ast.Name)
            and st.targets[0].id == "new_tag" and isinstance(st.value, ast.JoinedStr)):
        raise Unsupported("inverse: expected `new_tag = f\"...\"`, got " + ast.unparse(st))
    pieces = []
    for v in st.value.values:
        if isinstance(v, ast.Constant) and isinstance(v.value, str):
            pieces.append(f"PLit {_coq_str(v.value)}")
        elif (isinstance(v, ast.FormattedValue) and v.conversion == -1 and v.format_spec is None and isinstance(v.value, ast.Name)):
            if v.value.id == "gate_name":
                pieces.append("PGate")
            elif v.value.id in env:
                pieces.append(f"PVal {env[v.value.id]}")
            else:
                raise Unsupported(f"inverse: unknown name {v.value.id} in the tag f-string")
        else:
            raise Unsupported("inverse: f-string part " + ast.unparse(v))
    return "[" + "; ".join(pieces) + "]"


def _branch(stmts: list[ast.stmt]):
    if not stmts:
        raise Unsupported("inverse: empty branch")
    srcs, env, fmts = [], {}, set()
    for st in stmts[:-1]:
        var, fmt, key, neg = _value_assign(st)
        env[var] = len(srcs)
        srcs.append((key, neg))
        fmts.add(fmt)
    return srcs, _template(stmts[-1], env), fmts


def translate(repo_src: Path) -> str:
    mod = parse(repo_src / "circuit.py")
    inv = methods(classes(mod)["Circuit"]).get("inverse")
    if inv is None:
        raise Unsupported("Circuit.inverse missing")
    body = body_wo_doc(inv)
    if len(body) != 4 or [ast.unparse(s) for s in body[:2]] != _PRELUDE_SHAPE:
        raise Unsupported("inverse: prelude differs from the modelled shape")
    loop, ret = body[2], body[3]
    if ast.unparse(ret) != "return Circuit.from_stim_program(inv_stim)":
        raise Unsupported("inverse: return statement")
    if not (isinstance(loop, ast.For) and ast.unparse(loop.target) == "instr" and ast.unparse(loop.iter) == "inv_stim_raw" and not loop.orelse):
        raise Unsupported("inverse: loop header")
    lb = loop.body
    if [ast.unparse(s) for s in lb[:5]] != _LOOP_HEAD or len(lb) != 7:
        raise Unsupported("inverse: loop body head differs from the modelled shape")
    guard, tail = lb[5], lb[6]
    if ast.unparse(tail) != "inv_stim.append(instr)":
        raise Unsupported("inverse: instructions that are not re-tagged must be appended unchanged")
    if not (isinstance(guard, ast.If) and ast.unparse(guard.test) == "name == 'I' and tag" and not guard.orelse and len(guard.body) == 2):
        raise Unsupported("inverse: guard of the re-tagging branch")
    if ast.unparse(guard.body[0]) != "result = parse_parametric_tag(tag)":
        raise Unsupported("inverse: the tag must be read by parse_parametric_tag")
    inner = guard.body[1]
    if not (isinstance(inner, ast.If) and ast.unparse(inner.test) == "result is not None" and not inner.orelse and len(inner.body) == 4):
        raise Unsupported("inverse: `if result is not None` block")
    if ast.unparse(inner.body[0]) != "gate_name, params = result":
        raise Unsupported("inverse: result unpacking")
    if ast.unparse(inner.body[2]) != "inv_stim.append('I', targets, args, tag=new_tag)" or ast.unparse(inner.body[3]) != "continue":
        raise Unsupported("inverse: the re-tagged instruction must be I with the same targets and arguments")
    sel = inner.body[1]
    if not (isinstance(sel, ast.If) and ast.unparse(sel.test) == "gate_name == 'U3'" and sel.orelse):
        raise Unsupported("inverse: U3 / rotation selection")
    u3_src, u3_tpl, f1 = _branch(sel.body)
    rot_src, rot_tpl, f2 = _branch(sel.orelse)
    fmts = f1 | f2
    if len(fmts) != 1:
        raise Unsupported(f"inverse: mixed formatting functions {sorted(fmts)}")
    fmt = fmts.pop()
    if fmt == "float":
        kind = "FmtFloatRepr"
    elif fmt == "_format_angle":
        fa = functions(mod).get("_format_angle")
        if fa is None or [a.arg for a in fa.args.args] != ["x"]:
            raise Unsupported("_format_angle missing or has another signature")
        got = [ast.unparse(s) for s in body_wo_doc(fa)]
        if got != _FORMAT_ANGLE_SHAPE:
            for a, b in zip(got + [""] * 9, _FORMAT_ANGLE_SHAPE + [""] * 9):
                if a != b:
                    raise Unsupported(f"_format_angle differs from the modelled shape:\n  got      {a!r}\n  expected {b!r}")
        kind = "FmtPositional"
    else:
        raise Unsupported(f"inverse: unknown formatting function {fmt}")
    imps = [ast.unparse(n) for n in mod.body if isinstance(n, (ast.Import, ast.ImportFrom))]
    if not any(i.startswith("from tsim.core.parse import") and "parse_parametric_tag" in i for i in imps):
        raise Unsupported("circuit.py: parse_parametric_tag is not tsim.core.parse's")

    def srcs(l):
        return "[" + "; ".join(f"({_coq_str(k)}, {'true' if n else 'false'})" for k, n in l) + "]"

    return "\n".join([
        "(* GENERATED by /verif/translate/inverse_facts.py from tsim/circuit.py::Circuit.inverse -- do not edit *)",
        "From Coq Require Import List Ascii String.",
        "Require Import TV.Model.Regex.",
        "Import ListNotations.",
        "",
        "(* how the (negated) angle is turned into text: repr of the nearest double, or the exact positional formatter *)",
        "Inductive fmt_kind : Type := FmtFloatRepr | FmtPositional.",
        "(* pieces of the f-string that builds the new tag: literal text, {gate_name}, the k-th formatted value *)",
        "Inductive ipiece : Type := PLit (s : str) | PGate | PVal (k : nat).",
        "",
        f"Definition inv_fmt : fmt_kind := {kind}.",
        "(* re-tagging applies to instructions named I with a non-empty tag that parse_parametric_tag recognises;",
        "   every other instruction of stim's inverse is appended unchanged; targets and arguments are kept *)",
        "Definition inv_retag_name : str := (lit \"I\").",
        "(* branch gate_name == \"U3\": formatted values in order = (parameter read, negated?) *)",
        "Definition inv_u3_gate : str := (lit \"U3\").",
        f"Definition inv_u3_sources : list (str * bool) := {srcs(u3_src)}.",
        f"Definition inv_u3_tpl : list ipiece := {u3_tpl}.",
        "(* every other gate name *)",
        f"Definition inv_rot_sources : list (str * bool) := {srcs(rot_src)}.",
        f"Definition inv_rot_tpl : list ipiece := {rot_tpl}.",
        "",
    ])
