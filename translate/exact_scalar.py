"""core/exact_scalar.py::_scalar_mul and compile/evaluate.py tables  ->  gen/Gen_exact_scalar.v

Supported fragment (anything else raises Unsupported = tie broken):
  _scalar_mul(d1, d2):
      a1, b1, c1, d1_coeff = d1[..., 0], d1[..., 1], d1[..., 2], d1[..., 3]
      a2, ...             = d2[..., 0], ...
      A = <polynomial in those names with + - *>   (likewise B, C, D)
      return jnp.stack([A, B, C, D], axis=-1).astype(d1.dtype)
  _UNIT_PHASES = jnp.array([[int,int,int,int] x 8], dtype=jnp.int32)
  _ONE_PLUS_PHASES = _UNIT_PHASES.at[:, k].add(n)
  _IDENTITY = jnp.array([int x 4], dtype=jnp.int32)
"""
from __future__ import annotations

import ast
from pathlib import Path

from translate.pyast import Unsupported, body_wo_doc, functions, parse, toplevel_assign, zlit

OUT = "Gen_exact_scalar.v"


def _poly(e: ast.expr, env: dict[str, str]) -> str:
    if isinstance(e, ast.Name):
        if e.id not in env:
            raise Unsupported(f"unknown name {e.id} in _scalar_mul")
        return env[e.id]
    if isinstance(e, ast.Constant) and isinstance(e.value, int) and not isinstance(e.value, bool):
        return zlit(e.value)
    if isinstance(e, ast.BinOp) and isinstance(e.op, (ast.Add, ast.Sub, ast.Mult)):
        op = {ast.Add: "+", ast.Sub: "-", ast.Mult: "*"}[type(e.op)]
        return f"({_poly(e.left, env)} {op} {_poly(e.right, env)})"
    if isinstance(e, ast.UnaryOp) and isinstance(e.op, ast.USub):
        return f"(- {_poly(e.operand, env)})"
    raise Unsupported("expression outside +,-,* fragment: " + ast.unparse(e))


def _unpack(st: ast.stmt, src: str, side: str) -> dict[str, str]:
    if not (isinstance(st, ast.Assign) and len(st.targets) == 1 and isinstance(st.targets[0], ast.Tuple)
            and isinstance(st.value, ast.Tuple) and len(st.value.elts) == 4 and len(st.targets[0].elts) == 4):
        raise Unsupported("expected 4-tuple unpack: " + ast.unparse(st))
    env = {}
    for k, (t, v) in enumerate(zip(st.targets[0].elts, st.value.elts)):
        if ast.unparse(v) != f"{src}[..., {k}]":
            raise Unsupported(f"expected {src}[..., {k}], got {ast.unparse(v)}")
        if not isinstance(t, ast.Name):
            raise Unsupported("unpack target")
        env[t.id] = f"{side}{k}"
    return env


def _int_rows(e: ast.expr, n_rows, n_cols) -> list[list[int]]:
    if not (isinstance(e, ast.Call) and ast.unparse(e.func) == "jnp.array"):
        raise Unsupported("expected jnp.array literal: " + ast.unparse(e)[:60])
    kws = {k.arg: ast.unparse(k.value) for k in e.keywords}
    if kws != {"dtype": "jnp.int32"}:
        raise Unsupported(f"table dtype {kws}")
    val = ast.literal_eval(e.args[0])
    if n_rows is None:
        val = [val]
    if not (isinstance(val, list) and (n_rows is None or len(val) == n_rows)
            and all(isinstance(r, list) and len(r) == n_cols and all(isinstance(x, int) for x in r) for r in val)):
        raise Unsupported("table shape")
    return val


def translate(repo_src: Path) -> str:
    mod = parse(repo_src / "core" / "exact_scalar.py")
    fn = functions(mod)["_scalar_mul"]
    if [a.arg for a in fn.args.args] != ["d1", "d2"]:
        raise Unsupported("_scalar_mul signature")
    body = body_wo_doc(fn)
    if len(body) != 7:
        raise Unsupported(f"_scalar_mul has {len(body)} statements, expected 7")
    env = {}
    env.update(_unpack(body[0], "d1", "x"))
    env.update(_unpack(body[1], "d2", "y"))
    outs = {}
    for st in body[2:6]:
        if not (isinstance(st, ast.Assign) and len(st.targets) == 1 and isinstance(st.targets[0], ast.Name)):
            raise Unsupported("expected simple assignment: " + ast.unparse(st))
        outs[st.targets[0].id] = _poly(st.value, env)
    ret = body[6]
    if not isinstance(ret, ast.Return):
        raise Unsupported("expected return")
    want = "jnp.stack([%s], axis=-1).astype(d1.dtype)"
    names = None
    if isinstance(ret.value, ast.Call):
        try:
            names = [x.id for x in ret.value.func.value.args[0].elts]
        except Exception:
            names = None
    if names is None or ast.unparse(ret.value) != want % ", ".join(names) or len(names) != 4 or any(n not in outs for n in names):
        raise Unsupported("return shape: " + ast.unparse(ret))
    # is the function jitted / dtype-preserving? recorded as a fact
    emod = parse(repo_src / "compile" / "evaluate.py")
    unit = _int_rows(toplevel_assign(emod, "_UNIT_PHASES"), 8, 4)
    ident = _int_rows(toplevel_assign(emod, "_IDENTITY"), None, 4)[0]
    op = toplevel_assign(emod, "_ONE_PLUS_PHASES")
    s = ast.unparse(op)
    import re
    m = re.fullmatch(r"_UNIT_PHASES\.at\[:, (\d+)\]\.add\((-?\d+)\)", s)
    if not m:
        raise Unsupported("_ONE_PLUS_PHASES shape: " + s)
    col, addv = int(m.group(1)), int(m.group(2))

    # ---- prod: which combine function does the associative scan use? ----
    from translate.pyast import classes, methods
    prod = methods(classes(mod)["ExactScalarArray"])["prod"]
    scans = [n for n in ast.walk(prod) if isinstance(n, ast.Call) and ast.unparse(n.func) == "lax.associative_scan"]
    if len(scans) != 1:
        raise Unsupported("prod: expected exactly one lax.associative_scan call")
    scan = ast.unparse(scans[0])
    if scan == "lax.associative_scan(_scalar_mul, self.coeffs, axis=axis)":
        prod_reduces = False
        if "result_power = jnp.sum(self.power, axis=axis)" not in ast.unparse(prod):
            raise Unsupported("prod: power of an unreduced product must be the sum of the powers")
    elif scan == "lax.associative_scan(_scalar_mul_reduced, (self.coeffs, self.power), axis=axis)":
        prod_reduces = True
        fns = functions(mod)
        want_comb = "return _reduce_pow2(_scalar_mul(x[0], y[0]), x[1] + y[1])"
        got_comb = [ast.unparse(st) for st in body_wo_doc(fns["_scalar_mul_reduced"])]
        if got_comb != [want_comb]:
            raise Unsupported(f"_scalar_mul_reduced body {got_comb}")
        want_red = [
            "m = coeffs[..., 0] | coeffs[..., 1] | coeffs[..., 2] | coeffs[..., 3]",
            "tz = lax.population_count((m & -m) - 1)",
            "tz = jnp.where(m == 0, 0, tz).astype(power.dtype)",
            "return (coeffs >> tz[..., None].astype(coeffs.dtype), power + tz)",
        ]
        got_red = [ast.unparse(st) for st in body_wo_doc(fns["_reduce_pow2"])]
        if got_red != want_red:
            raise Unsupported(f"_reduce_pow2 body {got_red}")
        up = ast.unparse(prod)
        if "result_coeffs = jnp.take(scanned_coeffs, indices=-1, axis=axis)" not in up or "result_power = jnp.take(scanned_power, indices=-1, axis=axis)" not in up:
            raise Unsupported("prod: result must be the last element of the scan")
    else:
        raise Unsupported("prod: unsupported scan " + scan)

    def tup(r):
        return "(" + ", ".join(zlit(x) for x in r) + ")"

    lines = [
        "(* GENERATED by /verif/translate/exact_scalar.py from /repo/src/tsim/core/exact_scalar.py and",
        "   /repo/src/tsim/compile/evaluate.py -- do not edit *)",
        "From Coq Require Import ZArith List.",
        "Import ListNotations.",
        "Open Scope Z_scope.",
        "Definition d8 := (Z * Z * Z * Z)%type.",
        "Definition scalar_mul (x y : d8) : d8 :=",
        "  let '(x0, x1, x2, x3) := x in let '(y0, y1, y2, y3) := y in",
        "  (" + ",\n   ".join(outs[n] for n in names) + ").",
        "Definition unit_phases : list d8 :=",
        "  [" + "; ".join(tup(r) for r in unit) + "].",
        f"Definition one_plus_col : nat := {col}.",
        f"Definition one_plus_add : Z := {zlit(addv)}.",
        "Definition identity_d8 : d8 := " + tup(ident) + ".",
        "(* prod(): does the associative scan divide out common powers of two after every multiplication? *)",
        "Definition prod_reduces : bool := " + ("true" if prod_reduces else "false") + ".",
        "",
    ]
    return "\n".join(lines)
