"""noise/dem.py::get_detector_error_model  ->  gen/Gen_dem_facts.v

Extracts, fail-closed, the facts the model Model/Dem.v is parametrised by:
  * the measurement-count rule of the relocation loop: `instruction.num_measurements` (ByStim) or a hard-coded
    name list with len(targets) / the MPP combiner rule (ByNames names mpp_special);
  * the sign of the look-back shift (`t - num_meas`), that the shift is applied to the observables collected
    SO FAR and before the current instruction is dispatched;
  * the trailing-detector loop: DETECTOR per obs.items() entry, `mapping[num_detectors + offset] = idx`;
  * the map-back condition and the gauge filter (`args == [p]`, all/any/no condition on the targets);
  * the flags forwarded to stim (with allow_gauge_detectors forced to True);
and, from the INSTALLED Stim (gate_data), the table of record-appending gates with their result arity.
Anything that does not match the expected statement shapes raises Unsupported (= tie broken).
"""
from __future__ import annotations

import ast
import re
from pathlib import Path

from translate.pyast import Unsupported, body_wo_doc, coq_string, functions, parse

OUT = "Gen_dem_facts.v"

FLAGS = ["decompose_errors", "flatten_loops", "approximate_disjoint_errors", "ignore_decomposition_failures",
         "block_decomposition_from_introducing_remnant_edges"]


def _u(n) -> str:
    return ast.unparse(n)


def _expect(cond: bool, what: str):
    if not cond:
        raise Unsupported("dem.py: " + what)


def _shift_stmt(st: ast.stmt) -> int:
    """`for idx in obs: obs[idx] = [t - num_meas for t in obs[idx]]` -> sign"""
    _expect(isinstance(st, ast.For) and _u(st.target) == "idx" and _u(st.iter) == "obs" and len(st.body) == 1 and not st.orelse,
            "shift loop must be `for idx in obs:`")
    m = re.fullmatch(r"obs\[idx\] = \[t ([-+]) num_meas for t in obs\[idx\]\]", _u(st.body[0]))
    _expect(m is not None, "shift statement outside the fragment: " + _u(st.body[0])[:80])
    return -1 if m.group(1) == "-" else 1


def _count_rule(stmts: list[ast.stmt]) -> tuple[str, int, int]:
    """the statements of the loop body before `if instruction.name == 'OBSERVABLE_INCLUDE'`; returns
    (coq count_rule, sign, number of statements consumed)"""
    s0 = stmts[0]
    if isinstance(s0, ast.Assign) and _u(s0) == "num_meas = instruction.num_measurements":
        s1 = stmts[1]
        if isinstance(s1, ast.If) and _u(s1.test) == "num_meas" and not s1.orelse and len(s1.body) == 1:
            return "ByStim", _shift_stmt(s1.body[0]), 2
        if isinstance(s1, ast.For):
            return "ByStim", _shift_stmt(s1), 2
        raise Unsupported("dem.py: statement after num_meas = instruction.num_measurements outside the fragment")
    if isinstance(s0, ast.If) and isinstance(s0.test, ast.Compare) and _u(s0.test.left) == "instruction.name" \
            and len(s0.test.ops) == 1 and isinstance(s0.test.ops[0], ast.In) and isinstance(s0.test.comparators[0], (ast.List, ast.Tuple)):
        names = [e.value for e in s0.test.comparators[0].elts if isinstance(e, ast.Constant) and isinstance(e.value, str)]
        _expect(len(names) == len(s0.test.comparators[0].elts) and not s0.orelse, "measurement name list must be string literals")
        b = s0.body
        _expect(len(b) == 3 and _u(b[0]) == "targets = instruction.targets_copy()", "name-list branch: expected `targets = instruction.targets_copy()`")
        mpp = False
        if isinstance(b[1], ast.If):
            _expect(_u(b[1].test) == "instruction.name == 'MPP'", "name-list branch: unexpected condition " + _u(b[1].test))
            got = [_u(x) for x in b[1].body]
            _expect(got == ["num_combiners = sum((1 for t in targets if t.is_combiner))", "num_meas = len(targets) - 2 * num_combiners"]
                    and [_u(x) for x in b[1].orelse] == ["num_meas = len(targets)"], "MPP rule outside the fragment: " + str(got))
            mpp = True
        else:
            _expect(_u(b[1]) == "num_meas = len(targets)", "name-list branch: expected `num_meas = len(targets)`")
        sign = _shift_stmt(b[2])
        uniq = list(dict.fromkeys(names))
        return "(ByNames [" + "; ".join(coq_string(n) for n in uniq) + "] " + ("true" if mpp else "false") + ")", sign, 1
    raise Unsupported("dem.py: measurement-count rule outside the fragment: " + _u(s0)[:100])


def stim_meas_table() -> list[tuple[str, str]]:
    import stim
    out = []
    for name, g in sorted(stim.gate_data().items()):
        if not g.produces_measurements:
            continue
        if g.takes_pauli_targets and not g.is_two_qubit_gate and name == "MPP":
            kind, probe, want = "KProduct", f"{name} X0*Z1 Y2", 2
        elif g.is_two_qubit_gate:
            kind, probe, want = "KPair", f"{name} 0 1 2 3", 2
        else:
            kind, probe, want = "KSingle", f"{name}{'(0.125)' if name.startswith('HERALDED_ERASE') else '(0.125,0,0,0)' if name.startswith('HERALDED_PAULI') else ''} 0 1", 2
        ins = stim.Circuit(probe)[0]
        if ins.num_measurements != want or len(ins.target_groups()) != want:
            raise Unsupported(f"installed Stim: {name} does not append one result per {kind}")
        out.append((name, kind))
    return out


def translate(repo_src: Path) -> str:
    mod = parse(repo_src / "noise" / "dem.py")
    fn = functions(mod).get("get_detector_error_model")
    _expect(fn is not None, "get_detector_error_model not found")
    body = body_wo_doc(fn)
    _expect(len(body) == 13, f"function has {len(body)} statements, expected 13")
    s = [_u(x) for x in body]
    _expect(s[0].startswith("if allow_non_deterministic_observables and decompose_errors:\n    raise ValueError("), "statement 0")
    _expect(s[1] == "obs: dict[int, list[int]] = defaultdict(list)", "obs must be a defaultdict(list): " + s[1])
    _expect(s[2].startswith("if not allow_non_deterministic_observables:\n    return stim_circuit.detector_error_model("), "statement 2")
    _expect(s[3] == "new_circuit = stim.Circuit()", "statement 3")

    # ---- relocation loop -------------------------------------------------------------------------------
    loop = body[4]
    _expect(isinstance(loop, ast.For) and _u(loop.target) == "instruction" and _u(loop.iter) == "stim_circuit.flattened()" and not loop.orelse,
            "the relocation loop must iterate over stim_circuit.flattened()")
    lb = [x for x in loop.body if not isinstance(x, ast.Assert)]
    rule, sign, used = _count_rule(lb)
    rest = lb[used:]
    _expect(len(rest) == 1 and isinstance(rest[0], ast.If) and _u(rest[0].test) == "instruction.name == 'OBSERVABLE_INCLUDE'",
            "dispatch on OBSERVABLE_INCLUDE must follow the shift")
    obs_branch = [x for x in rest[0].body if not isinstance(x, ast.Assert)]
    obs_src = [_u(x) for x in obs_branch]
    # an optional validation loop that only raises
    obs_src = [x for x in obs_src if not re.fullmatch(r"for t in instruction\.targets_copy\(\):\n    if not t\.is_measurement_record_target:\n        raise ValueError\(.*\)", x, flags=re.S)]
    _expect(obs_src == ["idx = int(instruction.gate_args_copy()[0])",
                        "target_vals = [t.value for t in instruction.targets_copy()]",
                        "obs[idx].extend(target_vals)"], "OBSERVABLE_INCLUDE branch outside the fragment: " + str(obs_src))
    els = [_u(x) for x in rest[0].orelse]
    _expect(len(els) == 1 and re.fullmatch(r"new_circuit\.append_operation\(instruction\.name, instruction\.targets_copy\(\), instruction\.gate_args_copy\(\)(, tag=instruction\.tag)?\)", els[0]) is not None,
            "every other instruction must be re-appended unchanged: " + str(els))

    # ---- trailing detectors -----------------------------------------------------------------------------
    _expect(s[5] == "num_detectors = stim_circuit.num_detectors", "statement 5: " + s[5])
    _expect(s[6] == "mapping: dict[int, int] = {}", "statement 6")
    tl = body[7]
    _expect(isinstance(tl, ast.For) and _u(tl.target) == "(idx, targets)" and _u(tl.iter) == "obs.items()" and len(tl.body) == 3,
            "trailing loop must iterate over obs.items()")
    t0, t1, t2 = [_u(x) for x in tl.body]
    _expect(t0 == "new_circuit.append_operation('DETECTOR', [stim.target_rec(t) for t in targets])", "trailing DETECTOR: " + t0)
    offset = None
    m = re.fullmatch(r"mapping\[num_detectors(?: ([-+]) (\d+))?\] = idx", t1)
    if m and t2 == "num_detectors += 1":
        offset = 0 if m.group(1) is None else int(m.group(2)) * (1 if m.group(1) == "+" else -1)
    m2 = re.fullmatch(r"mapping\[num_detectors(?: ([-+]) (\d+))?\] = idx", t2)
    if offset is None and m2 and t1 == "num_detectors += 1":
        offset = 1 + (0 if m2.group(1) is None else int(m2.group(2)) * (1 if m2.group(1) == "+" else -1))
    _expect(offset is not None, "mapping bookkeeping outside the fragment: " + t1 + " / " + t2)

    # ---- the call into stim -----------------------------------------------------------------------------
    call = body[8]
    _expect(isinstance(call, ast.Assign) and _u(call.targets[0]) == "dem" and isinstance(call.value, ast.Call)
            and _u(call.value.func) == "new_circuit.detector_error_model" and not call.value.args, "statement 8")
    kws = {k.arg: _u(k.value) for k in call.value.keywords}
    _expect(kws.pop("allow_gauge_detectors", None) == "True", "allow_gauge_detectors must be forced to True")
    _expect(kws == {f: f for f in FLAGS}, "flags forwarded to stim: " + str(kws))
    _expect(s[9] == "new_dem = stim.DetectorErrorModel()", "statement 9")

    # ---- map back + filter ------------------------------------------------------------------------------
    mb = body[10]
    _expect(isinstance(mb, ast.For) and _u(mb.target) == "instruction" and _u(mb.iter) == "dem", "statement 10")
    mbb = [x for x in mb.body if not isinstance(x, ast.Assert)]
    src = [_u(x) for x in mbb]
    _expect(len(src) in (5, 6) and src[0] == "new_targets = []" and src[1] == "new_type = instruction.type", "map-back loop prefix")
    want_inner = ("for t in instruction.targets_copy():\n"
                  "    if isinstance(t, stim.DemTarget) and t.is_relative_detector_id() and (t.val in mapping):\n"
                  "        new_targets.append(stim.target_logical_observable_id(mapping[t.val]))\n"
                  "        if instruction.type == 'detector':\n"
                  "            new_type = 'logical_observable'\n"
                  "    else:\n"
                  "        new_targets.append(t)")
    _expect(src[2] == want_inner, "map-back of detector targets outside the fragment")
    _expect(src[3] == "new_instruction = stim.DemInstruction(new_type, instruction.args_copy(), new_targets)", "map-back: " + src[3])
    _expect(src[-1] == "new_dem.append(new_instruction)", "map-back must append")
    fkind, fprob = "FilterNone", "0.5"
    if len(src) == 6:
        f = mbb[4]
        _expect(isinstance(f, ast.If) and not f.orelse, "filter shape")
        m = re.fullmatch(r"instruction\.args_copy\(\) == \[([0-9.]+)\]", _u(f.test))
        _expect(m is not None, "filter condition: " + _u(f.test))
        fprob = m.group(1)
        fb = [_u(x) for x in f.body]
        if fb == ["continue"]:
            fkind = "FilterAlways"
        else:
            m = re.fullmatch(r"all_logical = (all|any)\(\(isinstance\(t, stim\.DemTarget\) and t\.is_logical_observable_id\(\) for t in new_targets\)\)", fb[0])
            _expect(len(fb) == 2 and m is not None and fb[1] == "if all_logical:\n    continue", "filter body outside the fragment: " + str(fb))
            fkind = "FilterAllLogical" if m.group(1) == "all" else "FilterAnyLogical"
    p1024 = float(fprob) * 1024
    _expect(p1024 == int(p1024), "filter probability is not a multiple of 1/1024")
    _expect(s[11].startswith("if new_dem.num_observables != stim_circuit.num_observables:\n    raise ValueError("), "statement 11")
    _expect(s[12] == "return new_dem", "statement 12")

    table = stim_meas_table()
    lines = [
        "(* GENERATED by /verif/translate/dem_facts.py from src/tsim/noise/dem.py and the installed Stim -- do not edit *)",
        "From Coq Require Import List String ZArith.",
        "Import ListNotations.",
        "Require Import TV.Model.DemFacts.",
        "Open Scope string_scope.",
        "",
        f"Definition dem_rule : count_rule := {rule}.",
        f"Definition dem_shift_sign : Z := ({sign})%Z.",
        f"Definition dem_mapping_offset : Z := ({offset})%Z.",
        f"Definition dem_filter : filter_kind := {fkind}.",
        f"Definition dem_filter_prob : Z := {int(p1024)}%Z.   (* in units of 1/1024 *)",
        "Definition dem_forwarded_flags : list string := [" + "; ".join(coq_string(f) for f in FLAGS) + "].",
        "(* stim.gate_data(): gates with produces_measurements, and what one result corresponds to *)",
        "Definition stim_meas_table : list (string * mkind) :=\n  [" + "; ".join(f"({coq_string(n)}, {k})" for n, k in table) + "].",
        "",
    ]
    return "\n".join(lines)
