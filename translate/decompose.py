"""compile/stabrank.py :: _decompose, find_stab_magic, find_stab_u3, find_stab  ->  gen/Gen_decompose.v

The recursion skeleton of `_decompose` is translated into a fuelled Gallina interpreter over abstract
`count_fn / replace_fn / full_reduce / is_zero` (pyzx is the oracle).  Supported shape (anything else -> Unsupported):

    results: list[BaseGraph] = []
    for graph in graphs:
        if count_fn(graph) <cmp> <int>:          # keep test
            results.append(graph)
            continue
        gsum = replace_fn(graph.copy())
        for g in gsum.graphs:
            [zx.full_reduce(g, paramSafe=True)]  # optional: absent -> the term is passed on unreduced
            if g.scalar.is_zero:                 # pruning rule; the nested guard is optional
                [if len(results) <cmp> <int>:]
                    continue
            results.extend(_decompose([g], count_fn, replace_fn))
    return results

find_stab_u3 / find_stab_magic: which count / replace functions are passed; find_stab: reduce, then the two passes in
the order written.  The interpreter also returns the list of pruned terms (ghost output used by the theorem).
"""
from __future__ import annotations

import ast
from pathlib import Path

from translate.pyast import Unsupported, body_wo_doc, functions, parse

OUT = "Gen_decompose.v"


def _u(n) -> str:
    return ast.unparse(n)


def _cmp_nat(test: ast.expr, lhs_text: str, lhs_coq: str, where: str) -> str:
    if not (isinstance(test, ast.Compare) and len(test.ops) == 1 and _u(test.left) == lhs_text
            and isinstance(test.comparators[0], ast.Constant) and isinstance(test.comparators[0].value, int)
            and not isinstance(test.comparators[0].value, bool) and test.comparators[0].value >= 0):
        raise Unsupported(f"{where}: unsupported test `{_u(test)}`")
    k = test.comparators[0].value
    table = {ast.Eq: f"({lhs_coq} =? {k})", ast.NotEq: f"(negb ({lhs_coq} =? {k}))", ast.Lt: f"({lhs_coq} <? {k})",
             ast.LtE: f"({lhs_coq} <=? {k})", ast.Gt: f"({k} <? {lhs_coq})", ast.GtE: f"({k} <=? {lhs_coq})"}
    if type(test.ops[0]) not in table:
        raise Unsupported(f"{where}: unsupported comparison `{_u(test)}`")
    return table[type(test.ops[0])]


def _translate_decompose(fn: ast.FunctionDef) -> list[str]:
    W = "_decompose"
    if [a.arg for a in fn.args.args] != ["graphs", "count_fn", "replace_fn"] or fn.decorator_list:
        raise Unsupported(f"{W}: signature")
    b = body_wo_doc(fn)
    if len(b) != 3 or _u(b[0]) != "results: list[BaseGraph] = []" or _u(b[2]) != "return results":
        raise Unsupported(f"{W}: expected `results = []`, one loop, `return results`")
    outer = b[1]
    if not (isinstance(outer, ast.For) and _u(outer.target) == "graph" and _u(outer.iter) == "graphs" and not outer.orelse):
        raise Unsupported(f"{W}: outer loop header")
    ob = outer.body
    if len(ob) != 3:
        raise Unsupported(f"{W}: outer loop body has {len(ob)} statements, expected 3")
    keep = ob[0]
    if not (isinstance(keep, ast.If) and not keep.orelse and [_u(s) for s in keep.body] == ["results.append(graph)", "continue"]):
        raise Unsupported(f"{W}: keep branch `{_u(keep)[:120]}`")
    keep_test = _cmp_nat(keep.test, "count_fn(graph)", "count_fn graph", W)
    if _u(ob[1]) != "gsum = replace_fn(graph.copy())":
        raise Unsupported(f"{W}: expected `gsum = replace_fn(graph.copy())`, found `{_u(ob[1])}`")
    inner = ob[2]
    if not (isinstance(inner, ast.For) and _u(inner.target) == "g" and _u(inner.iter) == "gsum.graphs" and not inner.orelse):
        raise Unsupported(f"{W}: inner loop header")
    ib = list(inner.body)
    reduce_in_loop = False
    if ib and _u(ib[0]) == "zx.full_reduce(g, paramSafe=True)":
        reduce_in_loop = True
        ib = ib[1:]
    prune = "false"
    if len(ib) == 2:
        pr = ib[0]
        if not (isinstance(pr, ast.If) and not pr.orelse and _u(pr.test) == "g.scalar.is_zero" and len(pr.body) == 1):
            raise Unsupported(f"{W}: pruning rule `{_u(pr)[:160]}`")
        inner_if = pr.body[0]
        if _u(inner_if) == "continue":
            prune = "is_zero g"
        elif isinstance(inner_if, ast.If) and not inner_if.orelse and [_u(s) for s in inner_if.body] == ["continue"]:
            prune = "is_zero g && " + _cmp_nat(inner_if.test, "len(results)", "length results", W)
        else:
            raise Unsupported(f"{W}: pruning rule body `{_u(inner_if)[:160]}`")
        ib = ib[1:]
    if len(ib) != 1 or _u(ib[0]) != "results.extend(_decompose([g], count_fn, replace_fn))":
        raise Unsupported(f"{W}: expected `results.extend(_decompose([g], count_fn, replace_fn))`, found `{[_u(s) for s in ib]}`")
    pre = "full_reduce g0" if reduce_in_loop else "g0"
    ARGS = "(G : Type) (count_fn : G -> nat) (replace_fn : G -> list G) (full_reduce : G -> G) (is_zero : G -> bool)"
    return [
        "(* G: graphs; count_fn / replace_fn (gsum.graphs of replace_fn(graph.copy())) / full_reduce (zx.full_reduce(g, paramSafe=True),",
        "   in place) / is_zero (g.scalar.is_zero) are pyzx's.  State of a call: Some (results, pruned) -- `pruned` is a ghost",
        "   record of the terms dropped by `continue`; None = out of fuel. *)",
        "Definition dstate (G : Type) := option (list G * list G).",
        f"Definition inner_step {ARGS} (rec : list G -> dstate G) (st : dstate G) (g0 : G) : dstate G :=",
        "  match st with",
        "  | None => None",
        "  | Some (results, pruned) =>",
        f"      let g := {pre} in",
        f"      if {prune} then Some (results, pruned ++ [g])",
        "      else match rec [g] with Some (r, p) => Some (results ++ r, pruned ++ p) | None => None end",
        "  end.",
        f"Definition outer_step {ARGS} (rec : list G -> dstate G) (st : dstate G) (graph : G) : dstate G :=",
        "  match st with",
        "  | None => None",
        "  | Some (results, pruned) =>",
        f"      if {keep_test} then Some (results ++ [graph], pruned)",
        "      else fold_left (inner_step G count_fn replace_fn full_reduce is_zero rec) (replace_fn graph) (Some (results, pruned))",
        "  end.",
        f"Fixpoint decompose {ARGS} (fuel : nat) (graphs : list G) : dstate G :=",
        "  match fuel with",
        "  | O => None",
        "  | S k => fold_left (outer_step G count_fn replace_fn full_reduce is_zero (decompose G count_fn replace_fn full_reduce is_zero k)) graphs (Some ([], []))",
        "  end.",
        "",
    ]


PASS = {
    "find_stab_u3": ("zx.simplify.u3_count", "zx.simulate.replace_u3_states", "u3"),
    "find_stab_magic": ("zx.simplify.tcount", "lambda g: zx.simulate.replace_magic_states(g, pick_random=False)", "magic"),
}


def _pass_kind(fn: ast.FunctionDef) -> str:
    b = body_wo_doc(fn)
    W = fn.name
    if [a.arg for a in fn.args.args] != ["graphs"] or len(b) != 1 or not isinstance(b[0], ast.Return) or not isinstance(b[0].value, ast.Call):
        raise Unsupported(f"{W}: expected a single `return _decompose(...)`")
    call = b[0].value
    if _u(call.func) != "_decompose" or [_u(a) for a in call.args] != ["list(graphs)"]:
        raise Unsupported(f"{W}: call `{_u(call)[:120]}`")
    kws = {k.arg: _u(k.value) for k in call.keywords}
    for name, (cnt, rep, kind) in PASS.items():
        if kws == {"count_fn": cnt, "replace_fn": rep}:
            return kind
    raise Unsupported(f"{W}: unsupported count/replace functions {kws}")


def translate(repo_src: Path) -> str:
    mod = parse(repo_src / "compile" / "stabrank.py")
    fns = functions(mod)
    for n in ("_decompose", "find_stab_magic", "find_stab_u3", "find_stab"):
        if n not in fns:
            raise Unsupported(f"stabrank.py: function {n} not found")
    lines = [
        "(* GENERATED by /verif/translate/decompose.py from /repo/src/tsim/compile/stabrank.py -- do not edit *)",
        "From Coq Require Import List Bool Arith.",
        "Import ListNotations.",
        "Open Scope nat_scope.",
        "",
    ]
    lines += _translate_decompose(fns["_decompose"])
    kinds = {n: _pass_kind(fns[n]) for n in ("find_stab_u3", "find_stab_magic")}
    # find_stab
    fs = fns["find_stab"]
    if [a.arg for a in fs.args.args] != ["graph"]:
        raise Unsupported("find_stab: signature")
    b = body_wo_doc(fs)
    reduce_first = False
    if b and _u(b[0]) == "zx.full_reduce(graph, paramSafe=True)":
        reduce_first = True
        b = b[1:]
    # a chain  graphs = P1([graph]);  [graphs = P2(graphs);]  return P(graphs)
    chain = []
    cur = None
    for st in b:
        if isinstance(st, ast.Assign) and len(st.targets) == 1 and isinstance(st.targets[0], ast.Name) and isinstance(st.value, ast.Call):
            call, tgt = st.value, st.targets[0].id
        elif isinstance(st, ast.Return) and isinstance(st.value, ast.Call):
            call, tgt = st.value, None
        else:
            raise Unsupported(f"find_stab: statement `{_u(st)}`")
        fname = _u(call.func)
        if fname not in kinds or len(call.args) != 1 or call.keywords:
            raise Unsupported(f"find_stab: call `{_u(call)}`")
        arg = _u(call.args[0])
        if cur is None:
            if arg != "[graph]":
                raise Unsupported(f"find_stab: first pass must take [graph], found `{arg}`")
        elif arg != cur:
            raise Unsupported(f"find_stab: pass takes `{arg}`, expected `{cur}`")
        chain.append(kinds[fname])
        cur = tgt
        if tgt is None:
            break
    if cur is not None or not chain or _u(b[-1])[:6] != "return":
        raise Unsupported("find_stab: must end with `return <pass>(...)`")
    lines += [
        "(* find_stab: [full_reduce;] then the passes in the order written.  Each pass has its own count/replace functions:",
        f"   find_stab_u3 -> ({PASS['find_stab_u3'][0]}, {PASS['find_stab_u3'][1]}),",
        f"   find_stab_magic -> ({PASS['find_stab_magic'][0]}, replace_magic_states(pick_random=False)) *)",
        "Inductive pass_kind := PassU3 | PassMagic.",
        "Definition find_stab_passes : list pass_kind := [" + "; ".join("PassU3" if k == "u3" else "PassMagic" for k in chain) + "].",
        f"Definition find_stab_reduces_first : bool := {'true' if reduce_first else 'false'}.",
        "Definition run_pass (G : Type) (u3_count tcount : G -> nat) (replace_u3 replace_magic : G -> list G) (full_reduce : G -> G) (is_zero : G -> bool)",
        "    (fuel : nat) (k : pass_kind) (st : option (list G * list G)) : option (list G * list G) :=",
        "  match st with",
        "  | None => None",
        "  | Some (graphs, pruned) =>",
        "      match (match k with",
        "             | PassU3 => decompose G u3_count replace_u3 full_reduce is_zero fuel graphs",
        "             | PassMagic => decompose G tcount replace_magic full_reduce is_zero fuel graphs end) with",
        "      | Some (r, p) => Some (r, pruned ++ p)",
        "      | None => None",
        "      end",
        "  end.",
        "Definition find_stab (G : Type) (u3_count tcount : G -> nat) (replace_u3 replace_magic : G -> list G) (full_reduce : G -> G) (is_zero : G -> bool)",
        "    (fuel : nat) (graph : G) : option (list G * list G) :=",
        "  fold_left (fun st k => run_pass G u3_count tcount replace_u3 replace_magic full_reduce is_zero fuel k st) find_stab_passes",
        "    (Some ([if find_stab_reduces_first then full_reduce graph else graph], [])).",
        "",
    ]
    return "\n".join(lines)
