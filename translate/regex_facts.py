"""utils/program_text.py, core/parse.py::parse_parametric_tag, circuit.py text entry points  ->  gen/Gen_regex.v

Every `re.sub` / `re.match` pattern string and every replacement (literal string or callback building an
f-string from `m.group(k)`) is read from the CURRENT source, parsed by the small regex parser below and
emitted as a Gallina regex AST (TV.Model.Regex), together with the order of the substitutions.

Supported regex subset (anything else raises Unsupported = tie broken, fail-closed):
  literal characters, escaped punctuation, \\d \\w \\s, `.`, character classes [...] (literals, ranges, \\d \\w \\s,
  leading ^), ONE-CHARACTER atoms quantified by greedy * + ?, capturing groups ( ... ) that are neither nested
  nor quantified, \\b, a leading ^, a trailing $, one-character negative look-behind (?<!x) / look-ahead (?!x).
  Not supported: | {m,n} lazy/possessive quantifiers, back-references, named/non-capturing groups, flags,
  positive look-around, \\B \\A \\Z, quantified groups, nested groups, non-ASCII.

Supported Python shape of the two text functions: optional docstring; nested callbacks
    def f(m: re.Match) -> str:
        a, b = m.group(1), m.group(2)      # or single assignments  a = m.group(1)
        return f"...{a}...{b}..."
  statements `text = re.sub(<str const>, <str const | callback name>, text)` and a final `return text`.
parse_parametric_tag and the Circuit methods are compared statement by statement with the shape the hand
model (Model/ProgramText.v) encodes; only the regex strings are free.
"""
from __future__ import annotations

import ast
from pathlib import Path

from translate.pyast import Unsupported, body_wo_doc, classes, functions, methods, parse

OUT = "Gen_regex.v"

SPECIAL = set(".^$*+?{}[]\\|()")


# --------------------------------------------------------------------------------------
# regex parser for the supported subset -> flat item list
# --------------------------------------------------------------------------------------
def _ch(c: str) -> str:
    o = ord(c)
    if o >= 128:
        raise Unsupported(f"non-ASCII character {c!r} in a pattern")
    if 32 < o < 127 and c != '"':
        return f'"{c}"%char'
    return f"(ch {o}%N)"


class _RegexParser:
    def __init__(self, src: str):
        self.s = src
        self.i = 0
        self.items: list[str] = []       # Gallina item terms
        self.kinds: list[str] = []       # parallel: 'cls' 'star' 'plus' 'opt' 'open' 'close' 'assert'
        self.in_group = False
        self.ngroups = 0

    def fail(self, why):
        raise Unsupported(f"regex {self.s!r}: {why} at offset {self.i}")

    def peek(self):
        return self.s[self.i] if self.i < len(self.s) else ""

    # one escaped thing outside/inside a class: returns ("set", citem) or ("char", c) or ("wordb",)
    def escape(self, in_class: bool):
        assert self.peek() == "\\"
        self.i += 1
        c = self.peek()
        if c == "":
            self.fail("dangling backslash")
        self.i += 1
        if c == "d":
            return ("set", "CiDigit")
        if c == "w":
            return ("set", "CiWord")
        if c == "s":
            return ("set", "CiSpace")
        if c == "b" and not in_class:
            return ("wordb",)
        if c in SPECIAL or c in "-=,:;<>!@#%&~`'\" /":
            return ("char", c)
        self.fail(f"unsupported escape \\{c}")

    def char_class(self) -> str:
        assert self.peek() == "["
        self.i += 1
        neg = False
        if self.peek() == "^":
            neg = True
            self.i += 1
        members: list[str] = []
        first = True
        while True:
            c = self.peek()
            if c == "":
                self.fail("unterminated character class")
            if c == "]" and not first:
                self.i += 1
                break
            first = False
            if c == "[":
                # a literal [ inside a class is legal but Python warns about possible nested sets; keep it simple
                self.fail("'[' inside a character class")
            if c == "\\":
                e = self.escape(True)
                if e[0] == "set":
                    members.append(e[1])
                    continue
                lo = e[1]
            else:
                self.i += 1
                lo = c
            # range?
            if self.peek() == "-" and self.i + 1 < len(self.s) and self.s[self.i + 1] != "]":
                self.i += 1
                hc = self.peek()
                if hc == "\\":
                    e = self.escape(True)
                    if e[0] != "char":
                        self.fail("class range ending in a set escape")
                    hi = e[1]
                else:
                    self.i += 1
                    hi = hc
                if ord(hi) < ord(lo):
                    self.fail("bad character range")
                members.append(f"CiRange {_ch(lo)} {_ch(hi)}")
            else:
                members.append(f"CiChar {_ch(lo)}")
        if not members:
            self.fail("empty class")
        return f"(Cls {'true' if neg else 'false'} [{'; '.join(members)}])"

    def single_char_atom(self):
        """parse one one-character atom at the cursor; returns its cls term or None (cursor unchanged)"""
        c = self.peek()
        if c == "[":
            return self.char_class()
        if c == ".":
            self.i += 1
            return "ClsDot"
        if c == "\\":
            save = self.i
            e = self.escape(False)
            if e[0] == "wordb":
                self.i = save
                return None
            if e[0] == "set":
                return f"(Cls false [{e[1]}])"
            return f"(Cls false [CiChar {_ch(e[1])}])"
        if c and c not in SPECIAL:
            self.i += 1
            return f"(Cls false [CiChar {_ch(c)}])"
        return None

    def push(self, term, kind):
        self.items.append(term)
        self.kinds.append(kind)

    def parse(self):
        n = len(self.s)
        while self.i < n:
            c = self.peek()
            if c == "^":
                if self.items:
                    self.fail("^ not at the start")
                self.i += 1
                self.push("IBol", "assert")
                continue
            if c == "$":
                if self.i != n - 1 or self.in_group:
                    self.fail("$ not at the end")
                self.i += 1
                self.push("IEol", "assert")
                continue
            if c == "(":
                if self.s.startswith("(?<!", self.i) or self.s.startswith("(?!", self.i):
                    behind = self.s.startswith("(?<!", self.i)
                    self.i += 4 if behind else 3
                    a = self.single_char_atom()
                    if a is None or self.peek() != ")":
                        self.fail("look-around must contain exactly one one-character atom")
                    self.i += 1
                    self.push(f"INotBehind {a}" if behind else f"INotAhead {a}", "assert")
                elif self.s.startswith("(?", self.i):
                    self.fail("unsupported group extension")
                else:
                    if self.in_group:
                        self.fail("nested group")
                    self.in_group = True
                    self.ngroups += 1
                    self.i += 1
                    self.push("IOpen", "open")
                if self.peek() in ("*", "+", "?", "{") and self.kinds[-1] == "assert":
                    self.fail("quantified assertion")
                continue
            if c == ")":
                if not self.in_group:
                    self.fail("unbalanced )")
                self.in_group = False
                self.i += 1
                self.push("IClose", "close")
                if self.peek() in ("*", "+", "?", "{"):
                    self.fail("quantified group")
                continue
            if c in ("|", "{", "}", "*", "+", "?", "]"):
                self.fail(f"unsupported construct {c!r}")
            if c == "\\" and self.i + 1 < n and self.s[self.i + 1] == "b":
                self.i += 2
                self.push("IWordB", "assert")
                if self.peek() in ("*", "+", "?", "{"):
                    self.fail("quantified assertion")
                continue
            a = self.single_char_atom()
            if a is None:
                self.fail("unsupported atom")
            q = self.peek()
            if q in ("*", "+", "?"):
                self.i += 1
                if self.peek() in ("?", "+", "*", "{"):
                    self.fail("lazy / possessive / stacked quantifier")
                self.push({"*": "IStar", "+": "IPlus", "?": "IOpt"}[q] + " " + a, {"*": "star", "+": "plus", "?": "opt"}[q])
            elif q == "{":
                self.fail("counted repetition")
            else:
                self.push("ICls " + a, "cls")
        if self.in_group:
            self.fail("unterminated group")
        return self

    def nullable(self) -> bool:
        return not any(k in ("cls", "plus") for k in self.kinds)


def regex_to_gallina(src: str) -> tuple[str, int, bool]:
    p = _RegexParser(src).parse()
    return "[" + ";\n     ".join(p.items) + "]", p.ngroups, p.nullable()


def _coq_str(s: str) -> str:
    if any(ord(c) >= 128 for c in s):
        raise Unsupported(f"non-ASCII text {s!r}")
    if all(32 <= ord(c) < 127 and c != '"' for c in s):
        return f'(lit "{s}")'
    return "(s_of [" + "; ".join(f"{ord(c)}%N" for c in s) + "])"


def _coq_comment(s: str) -> str:
    return s.replace("(*", "( *").replace("*)", "* )").replace('"', "''")


# --------------------------------------------------------------------------------------
# the two rewriting functions
# --------------------------------------------------------------------------------------
def _callback_template(fn: ast.FunctionDef, ngroups: int) -> str:
    if len(fn.args.args) != 1 or fn.args.vararg or fn.args.kwarg or fn.args.kwonlyargs or fn.args.defaults:
        raise Unsupported(f"callback {fn.name}: signature")
    m = fn.args.args[0].arg
    env: dict[str, int] = {}

    def group_no(e: ast.expr) -> int:
        if (isinstance(e, ast.Call) and isinstance(e.func, ast.Attribute) and e.func.attr == "group"
                and isinstance(e.func.value, ast.Name) and e.func.value.id == m and len(e.args) == 1 and not e.keywords
                and isinstance(e.args[0], ast.Constant) and isinstance(e.args[0].value, int)
                and not isinstance(e.args[0].value, bool) and 1 <= e.args[0].value <= ngroups):
            return e.args[0].value
        raise Unsupported(f"callback {fn.name}: expected {m}.group(k) with 1<=k<={ngroups}, got {ast.unparse(e)}")

    body = body_wo_doc(fn)
    if not body or not isinstance(body[-1], ast.Return) or body[-1].value is None:
        raise Unsupported(f"callback {fn.name}: must end in return")
    for st in body[:-1]:
        if not (isinstance(st, ast.Assign) and len(st.targets) == 1):
            raise Unsupported(f"callback {fn.name}: statement {ast.unparse(st)}")
        tgt, val = st.targets[0], st.value
        if isinstance(tgt, ast.Name):
            env[tgt.id] = group_no(val)
        elif (isinstance(tgt, ast.Tuple) and isinstance(val, ast.Tuple) and len(tgt.elts) == len(val.elts)
              and all(isinstance(t, ast.Name) for t in tgt.elts)):
            nums = [group_no(v) for v in val.elts]
            for t, k in zip(tgt.elts, nums):
                env[t.id] = k
        else:
            raise Unsupported(f"callback {fn.name}: statement {ast.unparse(st)}")
    ret = body[-1].value
    pieces = []
    if isinstance(ret, ast.Constant) and isinstance(ret.value, str):
        pieces.append(f"TLit {_coq_str(ret.value)}")
    elif isinstance(ret, ast.JoinedStr):
        for v in ret.values:
            if isinstance(v, ast.Constant) and isinstance(v.value, str):
                pieces.append(f"TLit {_coq_str(v.value)}")
            elif isinstance(v, ast.FormattedValue) and v.conversion == -1 and v.format_spec is None:
                if isinstance(v.value, ast.Name) and v.value.id in env:
                    pieces.append(f"TGroup {env[v.value.id]}")
                else:
                    pieces.append(f"TGroup {group_no(v.value)}")
            else:
                raise Unsupported(f"callback {fn.name}: f-string part {ast.unparse(v)}")
    else:
        raise Unsupported(f"callback {fn.name}: return value {ast.unparse(ret)}")
    return "[" + "; ".join(pieces) + "]"


def _rewriting_function(fn: ast.FunctionDef, prefix: str) -> tuple[list[str], list[str]]:
    """returns (definitions, comment lines)"""
    if [a.arg for a in fn.args.args] != ["text"] or fn.args.vararg or fn.args.kwarg or fn.args.kwonlyargs:
        raise Unsupported(f"{fn.name}: signature")
    body = body_wo_doc(fn)
    callbacks: dict[str, ast.FunctionDef] = {}
    defs: list[str] = []
    names: list[str] = []
    if not body or not (isinstance(body[-1], ast.Return) and isinstance(body[-1].value, ast.Name) and body[-1].value.id == "text"):
        raise Unsupported(f"{fn.name}: must end in `return text`")
    k = 0
    for st in body[:-1]:
        if isinstance(st, ast.FunctionDef):
            if st.decorator_list:
                raise Unsupported(f"{fn.name}: decorated callback")
            callbacks[st.name] = st
            continue
        ok = (isinstance(st, ast.Assign) and len(st.targets) == 1 and isinstance(st.targets[0], ast.Name)
              and st.targets[0].id == "text" and isinstance(st.value, ast.Call)
              and ast.unparse(st.value.func) == "re.sub" and len(st.value.args) == 3 and not st.value.keywords
              and isinstance(st.value.args[2], ast.Name) and st.value.args[2].id == "text"
              and isinstance(st.value.args[0], ast.Constant) and isinstance(st.value.args[0].value, str))
        if not ok:
            raise Unsupported(f"{fn.name}: unsupported statement {ast.unparse(st)[:80]}")
        pat_src = st.value.args[0].value
        pat, ngroups, nullable = regex_to_gallina(pat_src)
        if nullable:
            raise Unsupported(f"{fn.name}: pattern {pat_src!r} can match the empty string")
        repl = st.value.args[1]
        if isinstance(repl, ast.Constant) and isinstance(repl.value, str):
            if "\\" in repl.value:
                raise Unsupported(f"{fn.name}: replacement {repl.value!r} contains a backslash (template escapes unsupported)")
            tpl = f"[TLit {_coq_str(repl.value)}]"
            rdesc = repr(repl.value)
        elif isinstance(repl, ast.Name) and repl.id in callbacks:
            tpl = _callback_template(callbacks[repl.id], ngroups)
            rdesc = "callback " + repl.id
        else:
            raise Unsupported(f"{fn.name}: replacement {ast.unparse(repl)}")
        defs.append(f"(* re.sub(r'{_coq_comment(pat_src)}', {_coq_comment(rdesc)}, text) *)")
        defs.append(f"Definition {prefix}_pat_{k} : pattern :=\n    {pat}.")
        defs.append(f"Definition {prefix}_tpl_{k} : template := {tpl}.")
        names.append(f"({prefix}_pat_{k}, {prefix}_tpl_{k})")
        k += 1
    if k == 0:
        raise Unsupported(f"{fn.name}: no substitution found")
    defs.append(f"Definition {prefix}_steps : list (pattern * template) :=\n  [" + "; ".join(names) + "].")
    return defs


# --------------------------------------------------------------------------------------
# parse_parametric_tag: shape check, regexes extracted
# --------------------------------------------------------------------------------------
_PPT_SHAPE = [
    "match = re.match(<RE0>, tag)",
    "if not match:\n    return None",
    "gate_name = match.group(1)",
    "params_str = match.group(2)",
    "params = {}",
    "for param in params_str.split(','):\n    param = param.strip()\n    if not param:\n        continue\n"
    "    param_match = re.match(<RE1>, param)\n    if not param_match:\n        return None\n"
    "    param_name = param_match.group(1)\n    value = Fraction(param_match.group(2))\n    params[param_name] = value",
    "return (gate_name, params)",
]


def _parse_parametric_tag(fn: ast.FunctionDef) -> list[str]:
    if [a.arg for a in fn.args.args] != ["tag"]:
        raise Unsupported("parse_parametric_tag: signature")
    regs: list[str] = []

    class Abstract(ast.NodeTransformer):
        def visit_Call(self, node):
            self.generic_visit(node)
            if ast.unparse(node.func) == "re.match":
                if len(node.args) != 2 or node.keywords or not (isinstance(node.args[0], ast.Constant) and isinstance(node.args[0].value, str)):
                    raise Unsupported("parse_parametric_tag: re.match call shape")
                regs.append(node.args[0].value)
                node.args[0] = ast.Name(id=f"<RE{len(regs) - 1}>", ctx=ast.Load())
            return node

    got = [ast.unparse(Abstract().visit(st)) for st in body_wo_doc(fn)]
    if got != _PPT_SHAPE:
        for a, b in zip(got + [""] * 8, _PPT_SHAPE + [""] * 8):
            if a != b:
                raise Unsupported(f"parse_parametric_tag: statement differs from the modelled shape:\n  got      {a!r}\n  expected {b!r}")
    if len(regs) != 2:
        raise Unsupported("parse_parametric_tag: expected two re.match calls")
    defs = []
    for name, src, want_groups in (("ppt_tag_pat", regs[0], 2), ("ppt_param_pat", regs[1], 2)):
        pat, ngroups, _ = regex_to_gallina(src)
        if ngroups != want_groups:
            raise Unsupported(f"parse_parametric_tag: {src!r} has {ngroups} groups, the code reads group(1), group(2)")
        defs.append(f"(* re.match(r'{_coq_comment(src)}', ...) *)")
        defs.append(f"Definition {name} : pattern :=\n    {pat}.")
    return defs


# --------------------------------------------------------------------------------------
# Circuit text entry points (facts)
# --------------------------------------------------------------------------------------
_CIRCUIT_SHAPES = {
    "__init__": ["self._stim_circ = stim.Circuit(shorthand_to_stim(stim_program_text)).flattened()"],
    "append_from_stim_program_text": [
        "self._stim_circ.append_from_stim_program_text(shorthand_to_stim(stim_program_text))",
        "self._stim_circ = self._stim_circ.flattened()",
    ],
    "from_file": [
        "with open(filename, 'r', encoding='utf-8') as f:\n    stim_program_text = f.read()",
        "stim_circ = stim.Circuit(shorthand_to_stim(stim_program_text)).flattened()",
        "return cls.from_stim_program(stim_circ)",
    ],
    "__str__": ["return stim_to_shorthand(str(self._stim_circ))"],
}


def _circuit_facts(cls: ast.ClassDef) -> list[str]:
    ms = methods(cls)
    for name, want in _CIRCUIT_SHAPES.items():
        if name not in ms:
            raise Unsupported(f"Circuit.{name} missing")
        got = [ast.unparse(st) for st in body_wo_doc(ms[name])]
        if got != want:
            raise Unsupported(f"Circuit.{name}: body {got} differs from the modelled shape {want}")
    rp = body_wo_doc(ms["__repr__"])
    if not (len(rp) == 1 and isinstance(rp[0], ast.Return) and isinstance(rp[0].value, ast.JoinedStr)):
        raise Unsupported("Circuit.__repr__: expected a single f-string return")
    vals = rp[0].value.values
    if not (len(vals) == 3 and isinstance(vals[0], ast.Constant) and isinstance(vals[2], ast.Constant)
            and isinstance(vals[1], ast.FormattedValue) and ast.unparse(vals[1].value) == "str(self)"
            and vals[1].conversion == -1 and vals[1].format_spec is None):
        raise Unsupported("Circuit.__repr__: expected f\"<prefix>{str(self)}<suffix>\"")
    return [
        "(* Circuit.__init__/append_from_stim_program_text/from_file pass shorthand_to_stim(text) to stim;",
        "   Circuit.__str__ = stim_to_shorthand(str(stim circuit)); __repr__ = prefix ++ str ++ suffix *)",
        "Definition circuit_text_entry_points_apply_shorthand_to_stim : bool := true.",
        "Definition circuit_str_applies_stim_to_shorthand : bool := true.",
        f"Definition repr_prefix : str := {_coq_str(vals[0].value)}.",
        f"Definition repr_suffix : str := {_coq_str(vals[2].value)}.",
    ]


def translate(repo_src: Path) -> str:
    pt = parse(repo_src / "utils" / "program_text.py")
    fns = functions(pt)
    for need in ("shorthand_to_stim", "stim_to_shorthand"):
        if need not in fns:
            raise Unsupported(f"program_text.py: {need} missing")
    lines = [
        "(* GENERATED by /verif/translate/regex_facts.py from tsim/utils/program_text.py, tsim/core/parse.py",
        "   (parse_parametric_tag) and tsim/circuit.py -- do not edit *)",
        "From Coq Require Import List Ascii String NArith.",
        "Require Import TV.Model.Regex.",
        "Import ListNotations.",
        "",
        "(* ---- shorthand_to_stim: substitutions in source order ---- *)",
    ]
    lines += _rewriting_function(fns["shorthand_to_stim"], "s2s")
    lines += ["", "(* ---- stim_to_shorthand ---- *)"]
    lines += _rewriting_function(fns["stim_to_shorthand"], "sh")
    pm = parse(repo_src / "core" / "parse.py")
    pf = functions(pm)
    if "parse_parametric_tag" not in pf:
        raise Unsupported("parse.py: parse_parametric_tag missing")
    imports = [ast.unparse(n) for n in pm.body if isinstance(n, (ast.Import, ast.ImportFrom))]
    if "from fractions import Fraction" not in imports or "import re" not in imports:
        raise Unsupported("parse.py: `re` / `fractions.Fraction` are not the standard-library ones")
    lines += ["", "(* ---- parse_parametric_tag ---- *)"]
    lines += _parse_parametric_tag(pf["parse_parametric_tag"])
    cm = parse(repo_src / "circuit.py")
    lines += ["", "(* ---- circuit.py ---- *)"]
    lines += _circuit_facts(classes(cm)["Circuit"])
    imps = [ast.unparse(n) for n in cm.body if isinstance(n, (ast.Import, ast.ImportFrom))]
    if "from tsim.utils.program_text import shorthand_to_stim, stim_to_shorthand" not in imps:
        raise Unsupported("circuit.py does not import shorthand_to_stim/stim_to_shorthand from tsim.utils.program_text")
    if "import re" not in [ast.unparse(n) for n in pt.body if isinstance(n, (ast.Import, ast.ImportFrom))]:
        raise Unsupported("program_text.py: `re` is not the standard-library module")
    lines.append("")
    return "\n".join(lines)
