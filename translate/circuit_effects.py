"""circuit.py::class Circuit  ->  gen/Gen_circuit_effects.v   (effect summary of every method)

Every method of `class Circuit` is compiled by a small symbolic executor into the effect IR of
coq/Model/CircuitEffects.v: which Stim call produces the object a handle ends up wrapping, whether it went
through `.flattened()`, whether a `.copy()` is interposed, whether `self._stim_circ` is assigned or a mutating
Stim method is called on it in place, and what is returned (the receiver, a new Circuit, a raw stim object).

Two modes, both fail-closed (anything else raises Unsupported = tie broken):

 * the container methods (IN_SCOPE below) must fit the symbolic fragment:
       self._stim_circ = E | self._stim_circ += E | self._stim_circ *= repetitions
       self._stim_circ.append_from_stim_program_text(shorthand_to_stim(stim_program_text))
       x = self._stim_circ.pop(index) | assert not isinstance(_, stim.CircuitRepeatBlock)
       c = cls.__new__(cls); c._stim_circ = E | x = E | x = Circuit.from_stim_program(E) | x += other
       if isinstance(other, Circuit): .. else: ..      (operand kind: two effects are emitted)
       if isinstance(index_or_slice, int): .. elif isinstance(index_or_slice, slice): .. else: raise
       c = stim.Circuit(); for instr in E: [assert]; if instr.name in [..]: continue; c.append(instr)
       return self | return x | return E | return self * repetitions
     E ::= self._stim_circ | other._stim_circ | other | stim_circuit | stim.Circuit() |
           stim.Circuit(shorthand_to_stim(stim_program_text)) | E.copy() | E.flattened() |
           E.without_noise() | E * repetitions | E[index_or_slice] | local
 * every other method must be read-only: `self._stim_circ` only as the receiver of a whitelisted
   non-mutating Stim attribute, as an argument of a whitelisted callee, or in a comparison; no store to any
   attribute of self; bare `self` only in whitelisted positions.  The callees that get the live object are
   recorded (`passes_live_to`); that they do not mutate it is validated by the harness, not proved.
"""
from __future__ import annotations

import ast
from pathlib import Path

from translate.pyast import Unsupported, body_wo_doc, classes, coq_string, parse

OUT = "Gen_circuit_effects.v"

# container methods of C17 -> Coq name stem
IN_SCOPE = {
    "__init__": "init",
    "from_stim_program": "from_stim_program",
    "append_from_stim_program_text": "append_text",
    "from_file": "from_file",
    "__iadd__": "iadd",
    "__add__": "add",
    "__imul__": "imul",
    "__mul__": "mul",
    "__rmul__": "rmul",
    "__getitem__": "getitem",
    "pop": "pop",
    "copy": "copy",
    "without_noise": "without_noise",
    "without_annotations": "without_annotations",
    "stim_circuit": "stim_circuit",
}

# non-mutating attributes / methods of stim.Circuit that a read-only method may use on the live object
READ_ATTRS = {
    "num_measurements", "num_detectors", "num_observables", "num_qubits", "num_ticks", "num_sweep_bits",
    "approx_equals", "compile_m2d_converter", "compile_sampler", "compile_detector_sampler", "diagram",
    "inverse", "copy", "flattened", "without_noise", "detector_error_model", "to_tableau", "has_flow",
}
# functions that may receive the live object (or the receiver) as an argument
PURE_CALLEES = {
    "str", "len", "repr", "render_svg", "parse_stim_circuit", "get_detector_error_model",
    "CompiledMeasurementSampler", "CompiledDetectorSampler", "cast", "isinstance",
}


def _u(n: ast.AST) -> str:
    return ast.unparse(n)


# ---- symbolic values -------------------------------------------------------------------------------
class Obj:                 # a stim object expression (IR term as a string)
    def __init__(self, e: str):
        self.e = e


class Handle:              # a new tsim Circuit handle
    def __init__(self, e: str | None, post: list[str] | None = None):
        self.e = e
        self.post = list(post or [])


class Val:                 # anything that is not a circuit
    pass


class Effect:
    def __init__(self):
        self.pre: list[str] = []
        self.ret: str | None = None
        self.post: list[str] = []
        self.live: list[str] = []

    def coq(self) -> str:
        return ("{| pre := [" + "; ".join(self.pre) + "]; ret := " + (self.ret or "RNone") + "; post := ["
                + "; ".join(self.post) + "]; passes_live_to := [" + "; ".join(coq_string(s) for s in self.live) + "] |}")

    def is_observer(self) -> bool:
        return not self.pre and not self.post and (self.ret or "RNone") in ("RNone", "RValue")


class Sym:
    """symbolic execution of one method under one choice of operand kind / index kind"""

    def __init__(self, tr: "Translator", fn: ast.FunctionDef, kind: str | None):
        self.tr = tr
        self.fn = fn
        self.kind = kind               # "T" / "S" for `other`, "int" / "slice" for index_or_slice, None
        self.env: dict[str, object] = {}
        self.eff = Effect()
        self.params = [a.arg for a in fn.args.args]
        self.returned = False

    # ---- expressions -----------------------------------------------------------------------------
    def obj(self, n: ast.expr) -> Obj | Handle | Val:
        s = _u(n)
        if s == "self._stim_circ":
            return Obj("XSelf")
        if s == "other._stim_circ":
            if self.kind != "T":
                raise Unsupported(f"{self.fn.name}: other._stim_circ used outside the isinstance(other, Circuit) branch")
            return Obj("XOtherT")
        if s == "other" and "other" in self.params:
            if self.kind != "S":
                raise Unsupported(f"{self.fn.name}: a tsim operand is used as a raw stim circuit")
            return Obj("XOtherS")
        if s == "stim_circuit" and "stim_circuit" in self.params:
            return Obj("XOtherS")
        if s == "f.read()":
            return Val()
        if s == "stim.Circuit()":
            return Obj("XEmpty")
        if s == "stim.Circuit(shorthand_to_stim(stim_program_text))":
            if "stim_program_text" not in self.params and not isinstance(self.env.get("stim_program_text"), Val):
                raise Unsupported(f"{self.fn.name}: program text of unknown origin")
            return Obj("XParse")
        if isinstance(n, ast.Name) and n.id in self.env:
            return self.env[n.id]  # type: ignore[return-value]
        if isinstance(n, ast.Call) and isinstance(n.func, ast.Attribute) and not n.args and not n.keywords:
            recv = self.obj(n.func.value)
            if isinstance(recv, Obj):
                m = {"copy": "XCopy", "flattened": "XFlattened", "without_noise": "XWithoutNoise"}.get(n.func.attr)
                if m is None:
                    raise Unsupported(f"{self.fn.name}: stim method .{n.func.attr}() on a circuit object is not in the fragment")
                return Obj(f"({m} {recv.e})")
        if isinstance(n, ast.BinOp) and isinstance(n.op, ast.Mult) and _u(n.right) == "repetitions":
            if _u(n.left) == "self":
                return self.call_method("__mul__")
            recv = self.obj(n.left)
            if isinstance(recv, Obj):
                return Obj(f"(XMul {recv.e})")
        if isinstance(n, ast.Subscript) and _u(n.slice) == "index_or_slice":
            recv = self.obj(n.value)
            if isinstance(recv, Obj):
                if self.kind == "slice":
                    return Obj(f"(XSlice {recv.e})")
                if self.kind == "int":
                    return Val()
                raise Unsupported(f"{self.fn.name}: subscript outside an isinstance(index_or_slice, ..) branch")
        if isinstance(n, ast.Call) and _u(n.func) in ("Circuit.from_stim_program", "cls.from_stim_program") \
                and len(n.args) == 1 and not n.keywords:
            a = self.obj(n.args[0])
            if not isinstance(a, Obj):
                raise Unsupported(f"{self.fn.name}: from_stim_program of a non-object")
            return self.tr.instantiate_from_stim_program(a.e)
        if s == "cls.__new__(cls)":
            return Handle(None)
        raise Unsupported(f"{self.fn.name}: expression outside the fragment: {s[:80]}")

    def call_method(self, name: str) -> Handle:
        eff = self.tr.effect_of(name, None)
        if eff.pre or not (eff.ret or "").startswith("(RNew"):
            raise Unsupported(f"{self.fn.name}: delegation to {name} which is not a pure constructor")
        h = Handle(eff.ret[len("(RNew "):-1], eff.post)
        self.eff.live += eff.live
        return h

    # ---- statements ------------------------------------------------------------------------------
    def run(self, body: list[ast.stmt]):
        for st in body:
            if self.returned:
                raise Unsupported(f"{self.fn.name}: code after return")
            self.stmt(st)

    def stmt(self, st: ast.stmt):
        fn = self.fn.name
        s = _u(st)
        if isinstance(st, ast.Assert):
            t = st.test
            if (isinstance(t, ast.UnaryOp) and isinstance(t.op, ast.Not) and isinstance(t.operand, ast.Call)
                    and _u(t.operand.func) == "isinstance" and _u(t.operand.args[1]) == "stim.CircuitRepeatBlock"):
                return
            raise Unsupported(f"{fn}: assert outside the fragment: {s[:80]}")
        if isinstance(st, ast.With):
            if [(_u(i.context_expr).startswith("open("), _u(i.optional_vars) if i.optional_vars else None) for i in st.items] != [(True, "f")]:
                raise Unsupported(f"{fn}: with-statement outside the fragment")
            self.run(st.body)
            return
        if isinstance(st, ast.Assign) and len(st.targets) == 1:
            tgt = _u(st.targets[0])
            if tgt == "self._stim_circ":
                v = self.obj(st.value)
                if not isinstance(v, Obj):
                    raise Unsupported(f"{fn}: self._stim_circ assigned a non-object")
                self.eff.pre.append(f"SSetSelf {v.e}")
                return
            if isinstance(st.targets[0], ast.Attribute) and isinstance(st.targets[0].value, ast.Name) \
                    and st.targets[0].attr == "_stim_circ" and isinstance(self.env.get(st.targets[0].value.id), Handle):
                h = self.env[st.targets[0].value.id]
                v = self.obj(st.value)
                if not isinstance(v, Obj) or h.e is not None or h.post:  # type: ignore[union-attr]
                    raise Unsupported(f"{fn}: unsupported initialisation of a new Circuit")
                h.e = v.e  # type: ignore[union-attr]
                return
            if isinstance(st.targets[0], ast.Name):
                nm = st.targets[0].id
                if isinstance(st.value, ast.Call) and _u(st.value.func) == "self._stim_circ.pop" \
                        and [_u(a) for a in st.value.args] == ["index"] and not st.value.keywords:
                    self.eff.pre.append("SPop")
                    self.env[nm] = Val()
                    return
                self.env[nm] = self.obj(st.value)
                return
            raise Unsupported(f"{fn}: assignment outside the fragment: {s[:80]}")
        if isinstance(st, ast.AugAssign):
            tgt = _u(st.target)
            if tgt == "self._stim_circ" and isinstance(st.op, ast.Add):
                v = self.obj(st.value)
                if not isinstance(v, Obj):
                    raise Unsupported(f"{fn}: += of a non-object")
                self.eff.pre.append(f"SIAdd {v.e}")
                return
            if tgt == "self._stim_circ" and isinstance(st.op, ast.Mult) and _u(st.value) == "repetitions":
                self.eff.pre.append("SIMul")
                return
            if isinstance(st.target, ast.Name) and isinstance(self.env.get(st.target.id), Handle) \
                    and isinstance(st.op, ast.Add) and _u(st.value) == "other":
                h = self.env[st.target.id]
                ia = self.tr.effect_of("__iadd__", self.kind)
                if ia.ret != "RSelf" or ia.post:
                    raise Unsupported(f"{fn}: `+=` on a new Circuit relies on __iadd__ returning self")
                h.post += ia.pre  # type: ignore[union-attr]
                self.eff.live += ia.live
                return
            raise Unsupported(f"{fn}: augmented assignment outside the fragment: {s[:80]}")
        if isinstance(st, ast.Expr):
            if s == "self._stim_circ.append_from_stim_program_text(shorthand_to_stim(stim_program_text))":
                self.eff.pre.append("SAppendText")
                return
            raise Unsupported(f"{fn}: expression statement outside the fragment: {s[:80]}")
        if isinstance(st, ast.If):
            t = _u(st.test)
            if t == "isinstance(other, Circuit)":
                if self.kind not in ("T", "S"):
                    raise Unsupported(f"{fn}: operand kind unknown")
                self.run(st.body if self.kind == "T" else st.orelse)
                return
            if t == "isinstance(index_or_slice, int)":
                if self.kind == "int":
                    self.run(st.body)
                    return
                if len(st.orelse) == 1 and isinstance(st.orelse[0], ast.If) and _u(st.orelse[0].test) == "isinstance(index_or_slice, slice)":
                    e2 = st.orelse[0]
                    if not (len(e2.orelse) == 1 and isinstance(e2.orelse[0], ast.Raise)):
                        raise Unsupported(f"{fn}: the final else must raise")
                    if self.kind == "slice":
                        self.run(e2.body)
                        return
                raise Unsupported(f"{fn}: index dispatch outside the fragment")
            raise Unsupported(f"{fn}: if-statement outside the fragment: {t[:80]}")
        if isinstance(st, ast.For):
            # c = stim.Circuit(); for instr in E: [assert]; if instr.name in [...]: continue; c.append(instr)
            src = self.obj(st.iter)
            if not (isinstance(src, Obj) and isinstance(st.target, ast.Name) and not st.orelse):
                raise Unsupported(f"{fn}: for-loop outside the fragment")
            it = st.target.id
            body = [b for b in st.body if not isinstance(b, ast.Assert)]
            for b in st.body:
                if isinstance(b, ast.Assert):
                    self.stmt(b)
            if len(body) != 2:
                raise Unsupported(f"{fn}: filter loop must be `if .. continue` + `append`")
            cond, app = body
            if not (isinstance(cond, ast.If) and not cond.orelse and len(cond.body) == 1 and isinstance(cond.body[0], ast.Continue)
                    and isinstance(cond.test, ast.Compare) and len(cond.test.ops) == 1 and isinstance(cond.test.ops[0], ast.In)
                    and _u(cond.test.left) == f"{it}.name" and isinstance(cond.test.comparators[0], (ast.List, ast.Tuple, ast.Set))
                    and all(isinstance(e, ast.Constant) and isinstance(e.value, str) for e in cond.test.comparators[0].elts)):
                raise Unsupported(f"{fn}: filter condition outside the fragment: {_u(cond)[:80]}")
            names = [e.value for e in cond.test.comparators[0].elts]
            if not (isinstance(app, ast.Expr) and isinstance(app.value, ast.Call) and isinstance(app.value.func, ast.Attribute)
                    and app.value.func.attr == "append" and isinstance(app.value.func.value, ast.Name)
                    and [_u(a) for a in app.value.args] == [it] and not app.value.keywords):
                raise Unsupported(f"{fn}: filter loop must append the instruction itself")
            dst = app.value.func.value.id
            d = self.env.get(dst)
            if not (isinstance(d, Obj) and d.e == "XEmpty"):
                raise Unsupported(f"{fn}: filter loop must fill a fresh stim.Circuit()")
            self.env[dst] = Obj("(XFiltered [" + "; ".join(coq_string(x) for x in names) + f"] {src.e})")
            return
        if isinstance(st, ast.Return):
            self.returned = True
            if st.value is None:
                self.eff.ret = "RNone"
                return
            if _u(st.value) == "self":
                self.eff.ret = "RSelf"
                return
            v = self.obj(st.value)
            if isinstance(v, Handle):
                if v.e is None:
                    raise Unsupported(f"{fn}: returns a Circuit whose _stim_circ was never set")
                self.eff.ret = f"(RNew {v.e})"
                self.eff.post = list(v.post)
            elif isinstance(v, Obj):
                self.eff.ret = f"(RStim {v.e})"
            else:
                self.eff.ret = "RValue"
            return
        raise Unsupported(f"{fn}: statement outside the fragment: {s[:80]}")


class Translator:
    def __init__(self, cls: ast.ClassDef):
        self.cls = cls
        self.meths: dict[str, ast.FunctionDef] = {}
        for n in cls.body:
            if isinstance(n, ast.FunctionDef):
                if any(_u(d) == "overload" for d in n.decorator_list):
                    continue
                if n.name in self.meths:
                    raise Unsupported(f"method {n.name} defined twice")
                self.meths[n.name] = n
            elif isinstance(n, (ast.Expr, ast.Assign, ast.AnnAssign, ast.Pass)):
                continue
            else:
                raise Unsupported(f"class body item outside the fragment: {type(n).__name__}")
        self.cache: dict[tuple[str, str | None], Effect] = {}
        self.busy: set[tuple[str, str | None]] = set()

    def kinds(self, name: str) -> list[str | None]:
        fn = self.meths[name]
        params = [a.arg for a in fn.args.args]
        if "other" in params:
            return ["T", "S"]
        if "index_or_slice" in params:
            return ["int", "slice"]
        return [None]

    def effect_of(self, name: str, kind: str | None) -> Effect:
        if name not in self.meths:
            raise Unsupported(f"class Circuit has no method {name}")
        if kind not in self.kinds(name):
            kind = self.kinds(name)[0] if len(self.kinds(name)) == 1 else kind
        key = (name, kind)
        if key in self.cache:
            return self.cache[key]
        if key in self.busy:
            raise Unsupported(f"recursive method {name}")
        self.busy.add(key)
        sym = Sym(self, self.meths[name], kind)
        sym.run(body_wo_doc(self.meths[name]))
        self.busy.discard(key)
        self.cache[key] = sym.eff
        return sym.eff

    def instantiate_from_stim_program(self, arg: str) -> Handle:
        eff = self.effect_of("from_stim_program", None)
        if eff.pre or eff.post or not (eff.ret or "").startswith("(RNew "):
            raise Unsupported("from_stim_program is not a plain constructor")
        body = eff.ret[len("(RNew "):-1]
        if "XSelf" in body or "XOtherT" in body:
            raise Unsupported("from_stim_program refers to something other than its argument")
        return Handle(body.replace("XOtherS", arg), [])

    # ---- read-only methods -------------------------------------------------------------------------
    def observer(self, name: str) -> Effect:
        fn = self.meths[name]
        eff = Effect()
        eff.ret = "RValue"
        parents: dict[ast.AST, ast.AST] = {}
        for p in ast.walk(fn):
            for c in ast.iter_child_nodes(p):
                parents[c] = p
        for n in ast.walk(fn):
            if isinstance(n, (ast.Assign, ast.AugAssign, ast.AnnAssign, ast.Delete)):
                tgts = n.targets if isinstance(n, (ast.Assign, ast.Delete)) else [n.target]
                for t in tgts:
                    for sub in ast.walk(t):
                        if isinstance(sub, ast.Name) and sub.id == "self":
                            raise Unsupported(f"{name}: stores through self: {_u(n)[:80]}")
            if isinstance(n, (ast.Global, ast.Nonlocal)):
                raise Unsupported(f"{name}: global/nonlocal")
            if isinstance(n, ast.Name) and n.id == "self" and isinstance(n.ctx, ast.Load):
                p = parents[n]
                if isinstance(p, ast.Attribute) and p.value is n:
                    if p.attr == "_stim_circ":
                        self._check_live_use(name, p, parents, eff)
                    elif p.attr in self.meths:
                        sub = self.meths[p.attr]
                        if p.attr in IN_SCOPE and p.attr not in ("stim_circuit", "copy", "without_noise", "without_annotations", "__getitem__", "__mul__", "__rmul__", "__add__"):
                            raise Unsupported(f"{name}: calls the mutating method {p.attr} on self")
                        if p.attr not in IN_SCOPE and p.attr != name:
                            eff.live += self.observer_cached(p.attr).live
                        _ = sub
                    else:
                        raise Unsupported(f"{name}: unknown attribute self.{p.attr}")
                elif isinstance(p, ast.Call) and n in p.args and _u(p.func) in PURE_CALLEES:
                    eff.live.append(_u(p.func))
                elif isinstance(p, ast.Compare):
                    pass
                else:
                    raise Unsupported(f"{name}: bare `self` escapes: {_u(p)[:80]}")
        eff.live = sorted(set(eff.live))
        return eff

    def observer_cached(self, name: str) -> Effect:
        key = (name, "obs")
        if key not in self.cache:
            if key in self.busy:
                return Effect()
            self.busy.add(key)
            self.cache[key] = self.observer(name)
            self.busy.discard(key)
        return self.cache[key]

    def _check_live_use(self, name: str, node: ast.Attribute, parents, eff: Effect):
        p = parents[node]
        if isinstance(p, ast.Attribute) and p.value is node:
            if p.attr not in READ_ATTRS:
                raise Unsupported(f"{name}: self._stim_circ.{p.attr} is not a whitelisted read-only attribute")
            if isinstance(p.ctx, ast.Store):
                raise Unsupported(f"{name}: stores into the wrapped circuit")
            return
        if isinstance(p, ast.Call) and node in p.args:
            f = _u(p.func)
            if f not in PURE_CALLEES:
                raise Unsupported(f"{name}: the live circuit is passed to {f}")
            eff.live.append(f)
            return
        if isinstance(p, ast.Compare):
            return
        if isinstance(p, ast.Subscript) and p.value is node and isinstance(p.ctx, ast.Load):
            return
        raise Unsupported(f"{name}: the live wrapped circuit escapes: {_u(p)[:80]}")


def translate(repo_src: Path) -> str:
    mod = parse(repo_src / "circuit.py")
    cls = classes(mod).get("Circuit")
    if cls is None:
        raise Unsupported("class Circuit not found")
    slots = [n for n in cls.body if isinstance(n, ast.Assign) and _u(n.targets[0]) == "__slots__"]
    if len(slots) != 1 or ast.literal_eval(slots[0].value) != ("_stim_circ",):
        raise Unsupported("__slots__ must be exactly ('_stim_circ',): the wrapped circuit is the only state")
    tr = Translator(cls)
    missing = [m for m in IN_SCOPE if m not in tr.meths]
    if missing:
        raise Unsupported(f"container methods missing from class Circuit: {missing}")

    lines = [
        "(* GENERATED by /verif/translate/circuit_effects.py from src/tsim/circuit.py -- do not edit *)",
        "From Coq Require Import List String.",
        "Import ListNotations.",
        "Require Import TV.Model.CircuitEffects.",
        "Open Scope string_scope.",
        "",
    ]
    defs: list[str] = []
    for py, stem in IN_SCOPE.items():
        for k in tr.kinds(py):
            eff = tr.effect_of(py, k)
            nm = f"eff_{stem}" + ("" if k is None else "_" + k.lower())
            lines.append(f"Definition {nm} : meffect :=\n  {eff.coq()}.")
            defs.append(nm)
    obs: list[tuple[str, Effect]] = []
    for py in tr.meths:
        if py in IN_SCOPE:
            continue
        obs.append((py, tr.observer_cached(py)))
    lines.append("")
    lines.append("(* every other method of the class: read-only *)")
    lines.append("Definition observer_effects : list (string * meffect) :=\n  [" +
                 ";\n   ".join(f"({coq_string(py)}, {e.coq()})" for py, e in obs) + "].")
    lines.append("Definition container_methods : list string :=\n  [" + "; ".join(coq_string(d) for d in defs) + "].")
    lines.append("")
    return "\n".join(lines)
