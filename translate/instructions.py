"""core/instructions.py  ->  gen/Gen_instructions.v   (fail-closed)

Composite gate functions (everything that only calls other functions of the module, touches the scalar,
appends channel tables or bumps the error-bit counters) are translated statement by statement into
Gallina functions producing `list (op Q)` (Model/Lane.v), polymorphic in the qubit type Q.
Primitive functions (those that touch the pyzx graph directly) are modelled by hand in Model/Lane.v; for
them, and for parse_stim_circuit / build_sampling_graph, the translator emits a fingerprint of the source
AST which Proofs/LaneFingerprints.v compares with the fingerprint the hand model was written against.
"""
from __future__ import annotations

import ast
import hashlib
from pathlib import Path

from translate.pyast import Unsupported, body_wo_doc, coq_string, functions, parse, toplevel_assign, zlit

OUT = "Gen_instructions.v"

# primitives: python name -> (coq constructor builder)
PRIMS = ["x_phase", "z_phase", "h", "_cx_cz", "swap", "i", "_error", "_m", "_r"]
HAND_ONLY = ["add_lane", "add_dummy", "ensure_lane", "last_row", "last_edge", "detector", "observable_include",
             "tick", "finalize_correlated_error"]
PHASE_PARAMS = {"phase", "theta", "phi", "lambda_"}
PROB_PARAMS = {"p", "px", "py", "pz", "pix", "piy", "piz", "pxi", "pxx", "pxy", "pxz", "pyi", "pyx", "pyy", "pyz", "pzi", "pzx", "pzy", "pzz"}
QUBIT_PARAMS = {"qubit", "control", "target", "qubit1", "qubit2", "qubit_i", "qubit_j"}


def fingerprint(node: ast.AST) -> str:
    return hashlib.sha1(ast.dump(node, annotate_fields=False, include_attributes=False).encode()).hexdigest()[:16]


class Tr:
    def __init__(self, funcs: dict[str, ast.FunctionDef]):
        self.funcs = funcs

    # ---------- parameter typing ----------
    def ptype(self, name: str) -> str:
        if name in QUBIT_PARAMS:
            return "Q"
        if name in PHASE_PARAMS:
            return "expo"
        if name in PROB_PARAMS:
            return "prob"
        if name == "invert":
            return "bool"
        if name == "classically_controlled":
            return "option (bool * bool)"
        if name == "paulis":
            return "list (pauli * Q)"
        if name == "qubits":
            return "list Q"
        if name == "types":
            return "list pauli"
        raise Unsupported(f"parameter {name}")

    def sig(self, fn: ast.FunctionDef):
        a = fn.args
        if a.vararg or a.kwarg or a.kwonlyargs or a.posonlyargs:
            raise Unsupported(f"{fn.name}: unsupported signature")
        names = [x.arg for x in a.args]
        if names[0] != "b":
            raise Unsupported(f"{fn.name}: first parameter must be b")
        names = names[1:]
        defaults = [None] * (len(names) - len(a.defaults)) + list(a.defaults)
        return names, dict(zip(names, defaults))

    # ---------- expressions ----------
    def phase(self, e, env) -> str:
        if isinstance(e, ast.Name) and e.id in env and env[e.id][1] == "expo":
            return env[e.id][0]
        if isinstance(e, ast.Call) and isinstance(e.func, ast.Name) and e.func.id == "Fraction":
            n, d = [ast.literal_eval(a) for a in e.args]
            if 4 % d != 0:
                raise Unsupported(f"Fraction({n},{d}) is not a multiple of 1/4")
            return f"(equarter ({n * (4 // d)})%Z)"
        if isinstance(e, ast.UnaryOp) and isinstance(e.op, ast.USub):
            return f"(eneg {self.phase(e.operand, env)})"
        if isinstance(e, ast.BinOp) and isinstance(e.op, ast.Div) and isinstance(e.right, ast.Constant) and e.right.value == 2:
            return f"(ehalf {self.phase(e.left, env)})"
        if isinstance(e, ast.BinOp) and isinstance(e.op, ast.Add):
            return f"(eadd {self.phase(e.left, env)} {self.phase(e.right, env)})"
        raise Unsupported("phase expression " + ast.unparse(e))

    def prob(self, e, env) -> str:
        if isinstance(e, ast.Name) and e.id in env and env[e.id][1] == "prob":
            return env[e.id][0]
        if isinstance(e, ast.Constant) and isinstance(e.value, int) and not isinstance(e.value, bool):
            return f"({e.value} # 1)%Q"
        if isinstance(e, ast.BinOp) and isinstance(e.op, ast.Div) and isinstance(e.right, ast.Constant) and isinstance(e.right.value, int):
            return f"({self.prob(e.left, env)} / ({e.right.value} # 1))%Q"
        if isinstance(e, ast.BinOp) and isinstance(e.op, (ast.Sub, ast.Add)):
            op = "-" if isinstance(e.op, ast.Sub) else "+"
            return f"({self.prob(e.left, env)} {op} {self.prob(e.right, env)})%Q"
        raise Unsupported("probability expression " + ast.unparse(e))

    def qubit(self, e, env) -> str:
        if isinstance(e, ast.Name) and e.id in env and env[e.id][1] == "Q":
            return env[e.id][0]
        raise Unsupported("qubit expression " + ast.unparse(e))

    def boolean(self, e, env) -> str:
        if isinstance(e, ast.Constant) and isinstance(e.value, bool):
            return "true" if e.value else "false"
        if isinstance(e, ast.Name) and e.id in env and env[e.id][1] == "bool":
            return env[e.id][0]
        raise Unsupported("boolean expression " + ast.unparse(e))

    def cc(self, e, env) -> str:
        s = ast.unparse(e)
        if isinstance(e, ast.Name) and e.id in env and env[e.id][1].startswith("option"):
            return env[e.id][0]
        if s == "classically_controlled[::-1] if classically_controlled else None" and "classically_controlled" in env:
            return f"(option_map (fun c => (snd c, fst c)) {env['classically_controlled'][0]})"
        if isinstance(e, ast.Constant) and e.value is None:
            return "None"
        raise Unsupported("classically_controlled expression " + s)

    def arg(self, e, ty, env) -> str:
        if ty == "Q":
            return self.qubit(e, env)
        if ty == "expo":
            return self.phase(e, env)
        if ty == "prob":
            return self.prob(e, env)
        if ty == "bool":
            return self.boolean(e, env)
        if ty.startswith("option"):
            return self.cc(e, env)
        if ty in ("list (pauli * Q)", "list Q", "list pauli"):
            if isinstance(e, ast.Name) and e.id in env and env[e.id][1] == ty:
                return env[e.id][0]
        raise Unsupported(f"argument {ast.unparse(e)} of type {ty}")

    # ---------- calls ----------
    def bind_args(self, callee: str, call: ast.Call, env, extra_types: dict[str, str] | None = None):
        fn = self.funcs[callee]
        names, defaults = self.sig(fn)
        if not (call.args and isinstance(call.args[0], ast.Name) and call.args[0].id == "b"):
            raise Unsupported(f"call to {callee}: first argument must be b")
        given: dict[str, ast.expr] = {}
        pos = call.args[1:]
        if len(pos) > len(names):
            raise Unsupported(f"call to {callee}: too many arguments")
        for n, a in zip(names, pos):
            given[n] = a
        for kw in call.keywords:
            if kw.arg is None or kw.arg not in names or kw.arg in given:
                raise Unsupported(f"call to {callee}: keyword {kw.arg}")
            given[kw.arg] = kw.value
        out = []
        for n in names:
            ty = (extra_types or {}).get(n) or self.ptype_prim(callee, n)
            if n in given:
                out.append(self.arg(given[n], ty, env))
            else:
                d = defaults[n]
                if d is None:
                    raise Unsupported(f"call to {callee}: missing argument {n}")
                out.append(self.arg(d, ty, {}))
        return out

    def ptype_prim(self, callee, n):
        special = {
            ("_cx_cz", "is_cx"): "bool", ("_error", "error_type"): "colour", ("_error", "phase"): "errlabel",
            ("_m", "silent"): "bool", ("_m", "restore"): "bool", ("_r", "perform_trace"): "bool",
        }
        if (callee, n) in special:
            return special[(callee, n)]
        return self.ptype(n)

    def call(self, c: ast.Call, env) -> str:
        f = ast.unparse(c.func)
        if f == "b.graph.scalar.add_phase":
            return f"[OPhase {self.phase(c.args[0], env)}]"
        if f == "b.graph.scalar.add_power":
            return f"[OPower ({ast.literal_eval(c.args[0])})%Z]"
        if f == "b.channel_probs.append":
            inner = c.args[0]
            if not (isinstance(inner, ast.Call) and isinstance(inner.func, ast.Name)):
                raise Unsupported("channel_probs.append of " + ast.unparse(inner))
            k = inner.func.id
            args = [self.prob(a, env) for a in inner.args]
            if k == "error_probs" and len(args) == 1:
                return f"[OChan (ChError {args[0]})]"
            if k == "pauli_channel_1_probs" and len(args) == 3:
                return f"[OChan (ChPauli1 {' '.join(args)})]"
            if k == "pauli_channel_2_probs":
                return "[OChan (ChPauli2 [" + "; ".join(args) + "])]"
            raise Unsupported("channel table " + k)
        if f == "b.correlated_error_probs.append":
            return f"[OCorrProb {self.prob(c.args[0], env)}]"
        if not isinstance(c.func, ast.Name) or c.func.id not in self.funcs:
            raise Unsupported("call " + ast.unparse(c))
        name = c.func.id
        if name in HAND_ONLY:
            raise Unsupported(f"composite function calls hand-only primitive {name}")
        if name in PRIMS:
            return self.prim(name, c, env)
        args = self.bind_args(name, c, env)
        return f"(g_{name} " + " ".join(args) + ")" if args else f"g_{name}"

    def errlabel(self, e) -> tuple[int, bool]:
        """f"e{b.num_error_bits}" / f"e{b.num_error_bits + k}" / f"c{b.num_correlated_error_bits}" -> (rel, corr)"""
        if not (isinstance(e, ast.JoinedStr) and len(e.values) == 2 and isinstance(e.values[0], ast.Constant)
                and isinstance(e.values[1], ast.FormattedValue)):
            raise Unsupported("error label " + ast.unparse(e))
        prefix = e.values[0].value
        inner = ast.unparse(e.values[1].value)
        if prefix == "e":
            if inner == "b.num_error_bits":
                return 0, False
            if inner.startswith("b.num_error_bits + ") and inner.split(" + ")[1].isdigit():
                return int(inner.split(" + ")[1]), False
        if prefix == "c" and inner == "b.num_correlated_error_bits":
            return 0, True
        raise Unsupported("error label " + ast.unparse(e))

    def prim(self, name: str, c: ast.Call, env) -> str:
        fn = self.funcs[name]
        names, defaults = self.sig(fn)
        given: dict[str, ast.expr] = {}
        for n, a in zip(names, c.args[1:]):
            given[n] = a
        for kw in c.keywords:
            if kw.arg not in names or kw.arg in given:
                raise Unsupported(f"primitive {name}: keyword {kw.arg}")
            given[kw.arg] = kw.value

        def get(n):
            if n in given:
                return given[n]
            if defaults.get(n) is None:
                raise Unsupported(f"primitive {name}: missing {n}")
            return defaults[n]

        if name in ("x_phase", "z_phase"):
            col = "CXc" if name == "x_phase" else "CZc"
            return f"[OSpider {col} {self.qubit(get('qubit'), env)} {self.phase(get('phase'), env)}]"
        if name == "h":
            return f"[OH {self.qubit(get('qubit'), env)}]"
        if name == "i":
            return f"[OI {self.qubit(get('qubit'), env)}]"
        if name == "swap":
            return f"[OSwap {self.qubit(get('qubit1'), env)} {self.qubit(get('qubit2'), env)}]"
        if name == "_cx_cz":
            return (f"[OCxCz {self.boolean(get('is_cx'), env)} {self.qubit(get('control'), env)} "
                    f"{self.qubit(get('target'), env)} {self.cc(get('classically_controlled'), env)}]")
        if name == "_error":
            vt = ast.unparse(get("error_type"))
            if vt not in ("VertexType.X", "VertexType.Z"):
                raise Unsupported("_error vertex type " + vt)
            rel, corr = self.errlabel(get("phase"))
            return f"[OErr {'CXc' if vt.endswith('X') else 'CZc'} {self.qubit(get('qubit'), env)} ({rel})%Z {'true' if corr else 'false'}]"
        if name == "_m":
            p = get("p")
            pp = self.prob(p, env) if not (isinstance(p, ast.Constant) and p.value == 0) else "(0 # 1)%Q"
            return (f"[OMeas {self.qubit(get('qubit'), env)} {pp} {self.boolean(get('silent'), env)} "
                    f"{self.boolean(get('restore'), env)}]")
        if name == "_r":
            return f"[OReset {self.qubit(get('qubit'), env)} {self.boolean(get('perform_trace'), env)}]"
        raise Unsupported("primitive " + name)

    # ---------- statements ----------
    def cond(self, e, env) -> str:
        s = ast.unparse(e)
        if isinstance(e, ast.Name) and e.id in env and env[e.id][1] == "bool":
            return env[e.id][0]
        if isinstance(e, ast.Compare) and len(e.ops) == 1 and isinstance(e.ops[0], ast.Gt) and isinstance(e.comparators[0], ast.Constant) \
                and e.comparators[0].value == 0:
            return f"(match Qcompare 0 {self.prob(e.left, env)} with Lt => true | _ => false end)"
        raise Unsupported("condition " + s)

    def pauli_test(self, e, var) -> list[str]:
        """`var == "X"` or an `or` of such tests -> list of pauli constructors"""
        if isinstance(e, ast.Compare) and len(e.ops) == 1 and isinstance(e.ops[0], ast.Eq) and isinstance(e.left, ast.Name) \
                and e.left.id == var and isinstance(e.comparators[0], ast.Constant) and e.comparators[0].value in ("X", "Y", "Z"):
            return ["P" + e.comparators[0].value]
        if isinstance(e, ast.BoolOp) and isinstance(e.op, ast.Or):
            out = []
            for v in e.values:
                out += self.pauli_test(v, var)
            return out
        raise Unsupported("pauli test " + ast.unparse(e))

    def block(self, stmts, env) -> str:
        parts = []
        env = dict(env)
        for st in stmts:
            r = self.stmt(st, env)
            if r is not None:
                parts.append(r)
        return "(" + " ++ ".join(parts) + ")" if parts else "[]"

    def stmt(self, st, env):
        if isinstance(st, ast.Expr) and isinstance(st.value, ast.Constant) and isinstance(st.value.value, str):
            return None
        if isinstance(st, ast.Expr) and isinstance(st.value, ast.Call):
            return self.call(st.value, env)
        if isinstance(st, ast.AugAssign) and isinstance(st.op, ast.Add):
            t = ast.unparse(st.target)
            if t == "b.num_error_bits" and isinstance(st.value, ast.Constant) and isinstance(st.value.value, int):
                return f"[OBumpErr ({st.value.value})%Z]"
            if t == "b.num_correlated_error_bits" and isinstance(st.value, ast.Constant) and st.value.value == 1:
                return None  # folded into OCorrProb (checked below: must follow correlated_error_probs.append)
            raise Unsupported("augmented assignment " + ast.unparse(st))
        if isinstance(st, ast.Assign) and len(st.targets) == 1 and isinstance(st.targets[0], ast.Name) and st.targets[0].id == "aux":
            v = ast.literal_eval(st.value)
            if v != -2:
                raise Unsupported("aux lane must be -2 (the model reserves that lane)")
            env["aux"] = ("aux", "Q")
            return None
        if isinstance(st, ast.If):
            s = ast.unparse(st.test)
            if s.endswith(" in b.last_vertex") and isinstance(st.test, ast.Compare) and not st.orelse:
                q = self.qubit(st.test.left, env)
                return f"[OIfLane {q} {self.block(st.body, env)}]"
            # chains on a pauli-typed loop variable
            pv = env.get("__pauli_var__")
            if pv is not None and pv[0] in s:
                return self.pauli_chain(st, env, pv[0])
            c = self.cond(st.test, env)
            return f"(if {c} then {self.block(st.body, env)} else {self.block(st.orelse, env)})"
        if isinstance(st, ast.For):
            it = ast.unparse(st.iter)
            tgt = ast.unparse(st.target)
            if it == "paulis" and tgt == "(pauli_type, qubit)" and "paulis" in env:
                env2 = dict(env)
                env2["qubit"] = ("qubit", "Q")
                env2["__pauli_var__"] = ("pauli_type", "")
                body = self.block(st.body, env2)
                return f"(flat_map (fun pq : pauli * Q => let pauli_type := fst pq in let qubit := snd pq in {body}) {env['paulis'][0]})"
            if it == "zip(qubits, types)" and tgt == "(qubit, type_)" and "qubits" in env and "types" in env:
                env2 = dict(env)
                env2["qubit"] = ("qubit", "Q")
                env2["__pauli_var__"] = ("type_", "")
                body = self.block(st.body, env2)
                return (f"(flat_map (fun qt : Q * pauli => let qubit := fst qt in let type_ := snd qt in {body}) "
                        f"(combine {env['qubits'][0]} {env['types'][0]}))")
            raise Unsupported("for loop " + ast.unparse(st)[:80])
        if isinstance(st, ast.Raise):
            return "[]"
        raise Unsupported("statement " + ast.unparse(st)[:100])

    def pauli_chain(self, st: ast.If, env, var) -> str:
        cases = {}
        node = st
        default = None
        while True:
            ps = self.pauli_test(node.test, var)
            body = self.block(node.body, env)
            for p in ps:
                cases.setdefault(p, body)
            if len(node.orelse) == 1 and isinstance(node.orelse[0], ast.If):
                node = node.orelse[0]
                continue
            if node.orelse:
                if not all(isinstance(x, ast.Raise) for x in node.orelse):
                    raise Unsupported("else branch of a pauli chain must raise")
                if set(cases) != {"PX", "PY", "PZ"}:
                    raise Unsupported("pauli chain with raising else must cover X, Y, Z")
            break
        arms = " | ".join(f"{p} => {cases.get(p, '[]')}" for p in ("PX", "PY", "PZ"))
        return f"(match {var} with {arms} end)"

    # ---------- functions ----------
    def function(self, fn: ast.FunctionDef) -> str:
        names, _ = self.sig(fn)
        env = {n: (n, self.ptype(n)) for n in names}
        body = body_wo_doc(fn)
        # correlated_error: num_correlated_error_bits += 1 must directly follow the probs.append
        src = [ast.unparse(s) for s in body]
        if any("num_correlated_error_bits += 1" in s for s in src):
            i = next(k for k, s in enumerate(src) if "num_correlated_error_bits += 1" in s)
            if i == 0 or "b.correlated_error_probs.append(p)" not in src[i - 1]:
                raise Unsupported("correlated_error bookkeeping order")
        needs_aux = any(isinstance(s, ast.Assign) and ast.unparse(s.targets[0]) == "aux" for s in body)
        params = " ".join(f"({n} : {env[n][1]})" for n in names)
        if needs_aux:
            params = "(aux : Q) " + params
        term = self.block(body, env)
        return f"Definition g_{fn.name} {{Q : Type}} {params} : list (op Q) :=\n  {term}."


def translate(repo_src: Path) -> str:
    mod = parse(repo_src / "core" / "instructions.py")
    funcs = functions(mod)
    for n in PRIMS + HAND_ONLY:
        if n not in funcs:
            raise Unsupported(f"primitive {n} not found")
    tr = Tr(funcs)
    composite = [n for n in funcs if n not in PRIMS and n not in HAND_ONLY]
    # dependency order
    done = set(PRIMS)
    order = []
    pending = list(composite)
    while pending:
        progressed = False
        for name in list(pending):
            deps = {c.func.id for c in ast.walk(funcs[name]) if isinstance(c, ast.Call) and isinstance(c.func, ast.Name) and c.func.id in funcs}
            if deps <= done | set(HAND_ONLY):
                order.append(name)
                done.add(name)
                pending.remove(name)
                progressed = True
        if not progressed:
            raise Unsupported(f"cyclic dependencies among {pending}")
    defs = []
    for name in order:
        # functions of the aux-lane kind receive aux explicitly; calls to them pass `aux` from the caller: only mpp uses it
        defs.append(tr.function(funcs[name]))
    text_defs = "\n".join(defs)
    # callers of g_r / g_h with aux inside mpp: `aux` is a bound variable there (needs_aux)
    # GATE_TABLE
    tbl = toplevel_assign(mod, "GATE_TABLE")
    if not isinstance(tbl, ast.Dict):
        raise Unsupported("GATE_TABLE must be a dict literal")
    rows = []
    for k, v in zip(tbl.keys, tbl.values):
        if not (isinstance(k, ast.Constant) and isinstance(v, ast.Tuple) and len(v.elts) == 2 and isinstance(v.elts[0], ast.Name)
                and isinstance(v.elts[1], ast.Constant)):
            raise Unsupported("GATE_TABLE row " + ast.unparse(k))
        fn, ar = v.elts[0].id, v.elts[1].value
        if fn not in funcs:
            raise Unsupported(f"GATE_TABLE: unknown function {fn}")
        names, defaults = tr.sig(funcs[fn])
        rows.append((k.value, fn, ar, names))
    table = "Definition gate_table : list (string * (string * nat)) :=\n  [" + ";\n   ".join(
        f"({coq_string(k)}%string, ({coq_string(fn)}%string, {ar}%nat))" for k, fn, ar, _ in rows) + "]."
    sigs = "Definition gate_signatures : list (string * list string) :=\n  [" + ";\n   ".join(
        f"({coq_string(fn)}%string, [" + "; ".join(coq_string(n) + "%string" for n in tr.sig(funcs[fn])[0]) + "])" for fn in funcs if fn not in HAND_ONLY) + "]."
    # fingerprints of hand-modelled code
    fps = []
    for n in PRIMS + HAND_ONLY:
        fps.append((n, fingerprint(funcs[n])))
    pmod = parse(repo_src / "core" / "parse.py")
    gmod = parse(repo_src / "core" / "graph.py")
    fps.append(("parse_stim_circuit", fingerprint(functions(pmod)["parse_stim_circuit"])))
    fps.append(("build_sampling_graph", fingerprint(functions(gmod)["build_sampling_graph"])))
    fp = "Definition fingerprints : list (string * string) :=\n  [" + ";\n   ".join(f"({coq_string(a)}%string, {coq_string(b)}%string)" for a, b in fps) + "]."
    # dispatch lists by signature (used by the gate theorems)
    def names_of(fn):
        return tr.sig(funcs[fn])[0]
    d1 = [fn for fn in order + ["x_phase", "z_phase", "h", "i"] if names_of(fn) == ["qubit"]]
    d2 = [fn for fn in order + ["swap"] if len(names_of(fn)) in (2, 3) and all(n in QUBIT_PARAMS for n in names_of(fn)[:2])
          and (len(names_of(fn)) == 2 or names_of(fn)[2] == "classically_controlled")]
    drot = [fn for fn in order if names_of(fn) == ["qubit", "phase"]]

    def gname(fn):
        return {"h": "(fun q => [OH q])", "i": "(fun q => [OI q])", "swap": "(fun a b => [OSwap a b])"}.get(fn, "g_" + fn)
    disp1 = "Definition unitary1 : list (string * (nat -> list (op nat))) :=\n  [" + ";\n   ".join(
        f"({coq_string(fn)}%string, {gname(fn)})" for fn in d1 if fn not in ("x_phase", "z_phase")) + "]."
    disp2 = "Definition unitary2 : list (string * (nat -> nat -> list (op nat))) :=\n  [" + ";\n   ".join(
        f"({coq_string(fn)}%string, " + (gname(fn) if len(names_of(fn)) == 2 else f"(fun a b => g_{fn} a b None)") + ")" for fn in d2) + "]."
    disprot = "Definition rotation1 : list (string * (nat -> expo -> list (op nat))) :=\n  [" + ";\n   ".join(
        f"({coq_string(fn)}%string, g_{fn})" for fn in drot) + "]."
    if names_of("u3") != ["qubit", "theta", "phi", "lambda_"]:
        raise Unsupported("u3 signature")
    # dispatcher used by the parse model: how parse_stim_circuit calls gate_func(b, *chunk, *args[, invert=True | classically_controlled=cc])
    arms = []
    seen = set()
    for k, fn, ar, names in rows:
        if fn in seen:
            continue
        seen.add(fn)
        qn = [n for n in names if n in QUBIT_PARAMS]
        pn = [n for n in names if n in PROB_PARAMS]
        other = [n for n in names if n not in QUBIT_PARAMS and n not in PROB_PARAMS]
        if len(qn) != ar or names[:ar] != qn or names[ar:ar + len(pn)] != pn or any(o not in ("invert", "classically_controlled") for o in other):
            raise Unsupported(f"GATE_TABLE function {fn}: signature {names} does not fit the dispatch scheme")
        fnobj = funcs[fn]
        _, defaults = tr.sig(fnobj)
        n_required = sum(1 for n in pn if defaults[n] is None)
        qpat = "[" + "; ".join(f"q{i}" for i in range(ar)) + "]"
        qargs = " ".join(f"q{i}" for i in range(ar))
        has_inv = "invert" in other
        has_cc = "classically_controlled" in other
        gcall = {"h": "g_h_prim", "i": "g_i_prim", "swap": "g_swap_prim"}.get(fn, "g_" + fn)
        sub = []
        for nargs in range(n_required, len(pn) + 1):
            apat = "[" + "; ".join(f"a{i}" for i in range(nargs)) + "]"
            # missing optional probability arguments take their python defaults (0)
            aargs = " ".join([f"a{i}" for i in range(nargs)] + ["(0 # 1)%Q"] * (len(pn) - nargs))
            call = f"{gcall} {qargs} {aargs}".strip()
            if has_inv:
                body = f"match cc with Some _ => None | None => Some ({call} invert) end"
            elif has_cc:
                body = f"if invert then None else Some ({call} cc)"
            else:
                body = f"if invert then None else match cc with Some _ => None | None => Some ({call}) end"
            sub.append(f"| {apat} => {body}")
        arms.append(f"  | {coq_string(fn)}%string => match qs with {qpat} => match args with " + " ".join(sub) + " | _ => None end | _ => None end")
    dispatcher = ("Definition g_h_prim (q : nat) : list (op nat) := [OH q].\n"
                  "Definition g_i_prim (q : nat) : list (op nat) := [OI q].\n"
                  "Definition g_swap_prim (a b : nat) : list (op nat) := [OSwap a b].\n"
                  "(* gate_func(b, *chunk, *args) / (..., invert=True) / (..., classically_controlled=cc); None = the call raises *)\n"
                  "Definition apply_gate (fn : string) (qs : list nat) (args : list Q) (invert : bool) (cc : option (bool * bool)) : option (list (op nat)) :=\n"
                  "  match fn with\n" + "\n".join(arms) + "\n  | _ => None\n  end.")
    header = [
        "(* GENERATED by /verif/translate/instructions.py from /repo/src/tsim/core/instructions.py -- do not edit *)",
        "From Coq Require Import ZArith List Bool QArith String.",
        "Import ListNotations.",
        "Require Import TV.Base.EP TV.Model.Lane.",
        "Open Scope list_scope.",
        "(* phase / 2 on an exponent: all coefficients must be even (exact halving); the symbolic slots count HALF angles *)",
        "Definition ehalf (e : expo) : expo := mkE (c0 e / 2)%Z (s1 e / 2)%Z (s2 e / 2)%Z (s3 e / 2)%Z.",
        "",
    ]
    return "\n".join(header) + text_defs + "\n\n" + table + "\n" + sigs + "\n" + fp + "\n" + disp1 + "\n" + disp2 + "\n" + disprot + "\n" + dispatcher + "\n"
