# names of all translators (modules in this package exposing OUT and translate(repo_src))
ALL = ["exact_scalar"]
